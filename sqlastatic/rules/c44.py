"""C44 -- Version counters prevent lost updates (version criterion + rowcount check)."""

from __future__ import annotations

import ast
import itertools
from typing import Dict, List, Optional, Set, Tuple

from ..astutil import ancestors, calls_in, dotted, dotted_reads, lexical_guards, name_stores, names_in, parent_map, test_atoms, unparse, walk_local, walk_stmts
from ..cfg import no_exc
from ..report import Registry, chain, sub
from ._helpers_rules_d import call_nodes, callee_is, const_is, guard_atom_set
from . import _helpers_rob_g1 as G

R = Registry(
    "C44",
    title="Version counters prevent lost updates",
    decides=(
        "each of the three statement emitters (UPDATE, post-update UPDATE, DELETE) adds `version_id_col == bindparam` "
        "exactly when the table carries the version column, binds it under the key the collector fills with the "
        "LOADED version, checks the matched row count after executing and raises StaleDataError under a condition "
        "that depends only on row counts, the dialect's rowcount capabilities and the versioning flag, never uses "
        "executemany for versioned rows when only single-row counts are reliable, and the collectors put the old "
        "version into the WHERE parameter and the generator's result into the SET parameter; after each INSERT/UPDATE "
        "a server-generated version that is still unloaded is re-read in the same flush, under conditions that mention "
        "only the versioning configuration and the attribute's loadedness."
    ),
    not_decided="interleavings of concurrent transactions; isolation behaviour of the backend; server-side version generation "
                "beyond the immediate re-read step (RETURNING support of the dialect, triggers).",
)

PERS = "orm/persistence.py"

_EG_CACHE: Dict[Tuple[int, int], list] = {}


def _eg(g, n: int):
    """Memoised g.edge_guards(n) (the CFG objects are cached per function by ctx.cfg; the cache entry keeps the
    graph alive so that id(g) stays unique)."""
    k = (id(g), n)
    if k not in _EG_CACHE:
        _EG_CACHE[k] = (g, g.edge_guards(n))
    return _EG_CACHE[k][1]
EMITTERS = {
    "_emit_update_statements": "_collect_update_commands",
    "_emit_post_update_statements": "_collect_post_update_commands",
    "_emit_delete_statements": "_collect_delete_commands",
}


_EMIT_WORDS = {"StaleDataError", "rowcount", "execute", "supports_sane_rowcount", "supports_sane_multi_rowcount"}
_COLLECT_WORDS = {"update_version_id", "version_id_col", "version_id_generator", "get_history"}


def _mentions(words):
    def want(callee) -> bool:
        for n in ast.walk(callee.node):
            if isinstance(n, ast.Attribute) and n.attr in words or isinstance(n, ast.Name) and n.id in words:
                return True
        return False
    return want


_WANT_EMIT, _WANT_COLLECT = _mentions(_EMIT_WORDS), _mentions(_COLLECT_WORDS)


def _emitter(ctx, name):
    """The emitter in normal form: helpers that execute / count rows / raise StaleDataError are inlined at their call
    site (the inverse of 'extract method'), single-expression predicate helpers are expanded, pure aliases
    (`dialect = connection.dialect`) are resolved."""
    return G.normal_form(ctx, ctx.func(f"{PERS}::{name}"), want=_WANT_EMIT)


def _collector(ctx, name):
    return G.normal_form(ctx, ctx.func(f"{PERS}::{name}"), want=_WANT_COLLECT)


def _pos(t):
    return (getattr(t, "lineno", 0), getattr(t, "col_offset", 0))


def _version_flag(ctx, f) -> str:
    """Local that holds `mapper.version_id_col is not None and mapper.version_id_col in mapper._cols_by_table[table]`."""
    for n, v, st in name_stores(f.node):
        if v is None or not isinstance(v, ast.BoolOp) or not isinstance(v.op, ast.And):
            continue
        parts = {unparse(x).replace(" ", "") for x in v.values}
        if parts == {"mapper.version_id_colisnotNone", "mapper.version_id_colinmapper._cols_by_table[table]"}:
            return n
    return ""


def _version_flag_loose(ctx, f) -> str:
    """The strict flag, or (so that the other rules keep working when C44-R1 already reports a wrong definition)
    the local whose definition tests `mapper.version_id_col is not None`."""
    strict = _version_flag(ctx, f)
    if strict:
        return strict
    for n, v, st in name_stores(f.node):
        if v is not None and "mapper.version_id_col is not None" in unparse(v):
            return n
    return ""


def _stmt_builder(f):
    for n in walk_local(f.node):
        if isinstance(n, ast.FunctionDef):
            if any(isinstance(c.func, ast.Attribute) and c.func.attr in ("update", "delete") and dotted(c.func.value) == "table" for c in calls_in(n)):
                return n
    return None


def _version_criterion(builder) -> List[Tuple[ast.Call, ast.Compare, ast.Call]]:
    """[(append call, comparison, bindparam call)] for `clauses._append_inplace(mapper.version_id_col == bindparam(..))`."""
    out = []
    for c in calls_in(builder):
        if isinstance(c.func, ast.Attribute) and c.func.attr in ("_append_inplace", "append", "where") and c.args:
            cmp_ = c.args[0]
            if isinstance(cmp_, ast.Compare) and len(cmp_.ops) == 1 and isinstance(cmp_.ops[0], ast.Eq) and dotted(cmp_.left) == "mapper.version_id_col":
                bp = cmp_.comparators[0]
                if isinstance(bp, ast.Call) and callee_is(bp, "bindparam"):
                    out.append((c, cmp_, bp))
    return out


@R.rule("C44-R1", floor=9, template="T-GUARD",
        desc="each emitter: the versioning flag is `version_id_col is not None and in this table's columns`; the "
             "statement gains `version_id_col == bindparam(..)` exactly under that flag; the bindparam key is the key "
             "the matching collector fills with the loaded version")
def r1(ctx):
    for ename, cname in EMITTERS.items():
        f = _emitter(ctx, ename)
        flag = _version_flag(ctx, f)
        ctx.check(bool(flag), f"{f.key}:version-flag", "no local defined as `mapper.version_id_col is not None and mapper.version_id_col in mapper._cols_by_table[table]`",
                  f"{flag} = version column present in this table", f.loc)
        b = _stmt_builder(f)
        ctx.require(b is not None, f"{ename}: no nested statement builder")
        crit = _version_criterion(b)
        g = ctx.cfg(b)
        good = len(crit) == 1
        key_attr = None
        if good:
            c, cmp_, bp = crit[0]
            nodes = g.nodes_containing(c)
            good = bool(nodes) and all(guard_atom_set(g, n) == {(flag, True)} for n in nodes)
            k = bp.args[0] if bp.args else None
            if isinstance(k, ast.Attribute) and dotted(k.value) == "mapper.version_id_col":
                key_attr = k.attr
        ctx.check(good, f"{f.key}:criterion-iff-flag",
                  f"the statement does not gain `mapper.version_id_col == bindparam(...)` exactly under `{flag}` ({len(crit)} criteria found)",
                  f"WHERE version_id_col == bindparam under {flag} only", f.loc)
        # the collector binds the loaded version under the same key
        cf = _collector(ctx, cname)
        vcols = {n for n, v, st in name_stores(cf.node) if v is not None and dotted(v) == "mapper.version_id_col"} | {"mapper.version_id_col"}
        keys = set()
        for st in walk_stmts(cf.node.body):
            if isinstance(st, ast.Assign) and isinstance(st.value, ast.Name) and st.value.id == "update_version_id":
                for t in st.targets:
                    if isinstance(t, ast.Subscript) and dotted(t.value) == "params" and isinstance(t.slice, ast.Attribute) and dotted(t.slice.value) in vcols:
                        keys.add(t.slice.attr)
        ctx.check(key_attr is not None and key_attr in keys, f"{f.key}:bind-key-agreement",
                  f"emitter binds the version under version_id_col.{key_attr}, collector {cname} stores the loaded version under {sorted(keys)}",
                  f"both use version_id_col.{key_attr}", f.loc)


# vocabulary on which the decision to raise StaleDataError may depend
def _allowed_read(d: str, flag: str, count_locals: Set[str]) -> bool:
    root = d.split(".")[0]
    if d.endswith("dialect.supports_sane_rowcount") or d.endswith("dialect.supports_sane_multi_rowcount"):
        return True
    if d == flag or d in ("len", "table", "True", "False", "None"):
        return True
    if d.startswith("mapper.version_id_col") or d == "mapper._cols_by_table":
        return True
    if root in count_locals or d.endswith(".rowcount"):
        return True
    return False


OPT_OUT_PARAMS = {
    "enable_check_rowcount": "explicit opt-out parameter used by the bulk UPDATE path, which cannot know how many rows a WHERE clause matches",
}


def _expand(ctx, f, expr, flag, depth=0, seen=None, stop=frozenset()) -> List[ast.AST]:
    """Leaves of `expr` after replacing locals by (all of) their defining expressions."""
    seen = seen or set()
    binds: Dict[str, List[ast.AST]] = {}
    loopvars = set()
    for n, v, st in name_stores(f.node):
        if v is None:
            loopvars.add(n)
        else:
            binds.setdefault(n, []).append(v)
    out = []
    for node in ast.walk(expr):
        if isinstance(node, ast.Name) and node.id in binds and node.id not in loopvars and node.id != flag and node.id not in seen and node.id not in stop and depth < 4:
            for v in binds[node.id]:
                if isinstance(v, ast.Constant):
                    continue
                out.extend(_expand(ctx, f, v, flag, depth + 1, seen | {node.id}, stop))
    out.append(expr)
    return out


@R.rule("C44-R2", floor=10, template="T-PATH",
        desc="each emitter: every execute() is followed by the row-count test; a StaleDataError raise exists whose "
             "condition depends only on row counts, the dialect rowcount capabilities and the versioning flag "
             "(any other condition must be disjoined with the versioning flag); warn-only never applies to versioned rows")
def r2(ctx):
    for ename in EMITTERS:
        f = _emitter(ctx, ename)
        flag = _version_flag_loose(ctx, f)
        ctx.require(flag, f"{ename}: versioning flag not found")
        g = ctx.cfg(f)
        raises = g.find(lambda n: n.kind == "stmt" and isinstance(n.stmt, ast.Raise) and n.stmt.exc is not None and "StaleDataError" in unparse(n.stmt.exc).split("(")[0])
        ctx.check(bool(raises), f"{f.key}:raises-stale", "no StaleDataError is raised", f"{len(raises)} raise site(s)", f.loc)
        if not raises:
            for aspect in ("check-after-execute", "stale-condition-vocabulary"):
                ctx.violation(f"{f.key}:{aspect}", "cannot hold: the emitter never raises StaleDataError", f.loc)
            continue
        # (a) every execute is followed by the outermost test that guards the raise
        guards = _eg(g, raises[0])
        ctx.require(guards, f"{ename}: StaleDataError raise is unconditional")
        # count-locals: numbers derived from rowcount / len / constants
        count_locals = set()
        for n, v, st in name_stores(f.node):
            if v is None:
                if isinstance(st, ast.AugAssign) and "rowcount" in unparse(st.value):
                    count_locals.add(n)
                continue
            txt = unparse(v)
            if isinstance(v, ast.Constant) or txt.startswith("len(") or txt.endswith(".rowcount") or txt.startswith("list(") or isinstance(v, (ast.ListComp, ast.List)):
                count_locals.add(n)
        # the outermost guard test that is specific to the check (not the enclosing loop structure)
        first_test = None
        for t, pol in guards:
            leaves = _expand(ctx, f, t, flag, stop=count_locals)
            reads = set()
            for lf in leaves:
                reads |= dotted_reads(lf)
            if any("rowcount" in r or r in count_locals for r in reads):
                first_test = t
                break
        ctx.require(first_test is not None, f"{ename}: cannot find the row-count test guarding StaleDataError")
        test_nodes = [n.id for n in g.nodes if n.kind == "test" and n.stmt.test is first_test]
        execs = call_nodes(g, lambda c: isinstance(c.func, ast.Attribute) and c.func.attr == "execute" and dotted(c.func.value) == "connection")
        ctx.require(execs, f"{ename}: no connection.execute()")
        w = g.must_pass(execs, [g.exit], test_nodes, edge_ok=no_exc)
        ctx.check(w is None, f"{f.key}:check-after-execute", "a normal path from connection.execute() leaves the emitter without the row-count test", f"{len(execs)} execute sites -> row-count test", f.loc, w)
        # (b) vocabulary of the raise condition
        # conditions that select the WAY of executing (they dominate a connection.execute() site: row by row with
        # values / row by row / executemany) may take part in the decision: which counts are reliable depends on it.
        # Whether the decision is then right for each way of executing is C44-R6's question.
        mode_reads = set()
        for e_ in execs:
            for t_, _pol in _eg(g, e_):
                mode_reads |= dotted_reads(t_)
        offenders = []
        for t, pol in guards:
            if not any(x is first_test or True for x in [t]):
                continue
            # only tests from the row-count test onwards belong to the decision
            if _pos(t) < _pos(first_test):
                continue
            conj = t.values if (isinstance(t, ast.BoolOp) and isinstance(t.op, ast.And) and pol) else [t]
            for part in conj:
                exempt = isinstance(part, ast.BoolOp) and isinstance(part.op, ast.Or) and any(isinstance(v, ast.Name) and v.id == flag for v in part.values)
                if exempt:
                    continue
                reads = set()
                for lf in _expand(ctx, f, part, flag, stop=count_locals):
                    reads |= dotted_reads(lf)
                for r in sorted(reads):
                    if r in f.params and r in OPT_OUT_PARAMS:
                        continue
                    binds = [v for n, v, st in name_stores(f.node) if n == r and v is not None]
                    if binds and all(not isinstance(v, ast.Constant) for v in binds) and r not in count_locals:
                        continue  # an expanded local: its definition's reads are judged instead
                    if binds and all(isinstance(v, ast.Constant) for v in binds):
                        continue
                    if not _allowed_read(r, flag, count_locals) and r not in mode_reads:
                        offenders.append(r)
        # one instance per foreign condition (a second foreign condition is a second violation, never absorbed by a
        # known finding about the first one); the plain key records the emitter whose vocabulary is clean
        if not offenders:
            ctx.ok(f"{f.key}:stale-condition-vocabulary", "depends only on row counts, dialect rowcount support and the versioning flag")
        for off in sorted(set(offenders)):
            ctx.violation(f"{f.key}:stale-condition-vocabulary[{off}]",
                          f"whether a stale versioned row raises StaleDataError also depends on `{off}`: with that condition false a "
                          f"version mismatch passes silently (it must be disjoined with `{flag}`)", f.loc)
        # (c) a boolean local that diverts from the raise (`if only_warn: warn else: raise`) can become true only for
        # tables without the version column: every binding is False, or True under `not flag`, or an expression
        # that implies `not flag`
        divert = set()
        for t, pol in guards:
            if _pos(t) < _pos(first_test):
                continue
            for txt, p2 in test_atoms(t, pol):
                if not p2 and txt.isidentifier() and txt != flag:
                    divert.add(txt)
        divert = {d for d in divert if d not in f.params
                  and any(n == d and v is not None and not isinstance(v, ast.Constant) or (n == d and const_is(v, True)) for n, v, st in name_stores(f.node))
                  and all(v is not None and (isinstance(v, ast.Constant) and isinstance(v.value, bool) or isinstance(v, (ast.BoolOp, ast.UnaryOp, ast.Compare, ast.Name)))
                          for n, v, st in name_stores(f.node) if n == d)}
        for d in sorted(divert):
            bad = []
            for n, v, st in name_stores(f.node):
                if n != d or const_is(v, False):
                    continue
                if (flag, False) in set(test_atoms(v, True)) and not const_is(v, True):
                    continue
                nodes = g.nodes_for(st)
                if const_is(v, True) and nodes and all((flag, False) in guard_atom_set_cached(g, x) for x in nodes):
                    continue
                bad.append(f"line {st.lineno}: {d} = {unparse(v)}")
            ctx.check(not bad, f"{f.key}:warn-only-not-for-versioned",
                      f"the warn-instead-of-raise mode (`{d}`) can be selected for a versioned table: " + "; ".join(bad),
                      f"`{d}` can be true only under not {flag}", f.loc)


def guard_atom_set_cached(g, node: int) -> Set:
    out = set()
    for t, pol in _eg(g, node):
        out.update(test_atoms(t, pol))
    return out




def _bool_eval(expr, asg, defs, depth=0):
    if isinstance(expr, ast.UnaryOp) and isinstance(expr.op, ast.Not):
        return not _bool_eval(expr.operand, asg, defs, depth)
    if isinstance(expr, ast.BoolOp):
        vals = [_bool_eval(v, asg, defs, depth) for v in expr.values]
        return all(vals) if isinstance(expr.op, ast.And) else any(vals)
    txt = unparse(expr)
    if txt in asg:
        return asg[txt]
    if isinstance(expr, ast.Name) and expr.id in defs and depth < 5:
        return _bool_eval(defs[expr.id], asg, defs, depth + 1)
    raise KeyError(txt)


def _atoms_of(expr, defs, out, depth=0):
    if isinstance(expr, ast.UnaryOp) and isinstance(expr.op, ast.Not):
        return _atoms_of(expr.operand, defs, out, depth)
    if isinstance(expr, ast.BoolOp):
        for v in expr.values:
            _atoms_of(v, defs, out, depth)
        return
    if isinstance(expr, ast.Name) and expr.id in defs and depth < 5:
        return _atoms_of(defs[expr.id], defs, out, depth + 1)
    out.add(unparse(expr))


@R.rule("C44-R3", floor=3, template="T-GUARD/T-BOOL",
        desc="each emitter: an executemany (list of parameter sets) is never issued for a versioned table when the "
             "dialect reports reliable single-row counts but not multi-row counts")
def r3(ctx):
    for ename in EMITTERS:
        f = _emitter(ctx, ename)
        flag = _version_flag_loose(ctx, f)
        ctx.require(flag, f"{ename}: versioning flag not found")
        g = ctx.cfg(f)
        single, multi = None, None
        # boolean locals with exactly one boolean-expression definition may be expanded
        counts: Dict[str, int] = {}
        for n, v, st in name_stores(f.node):
            counts[n] = counts.get(n, 0) + 1
        defs = {n: v for n, v, st in name_stores(f.node)
                if v is not None and counts[n] == 1 and n != flag and isinstance(v, (ast.BoolOp, ast.UnaryOp, ast.Attribute, ast.Name, ast.Compare))}
        listy = {n for n, v, st in name_stores(f.node) if isinstance(v, (ast.ListComp, ast.List))}
        many = call_nodes(g, lambda c: isinstance(c.func, ast.Attribute) and c.func.attr == "execute" and dotted(c.func.value) == "connection"
                          and len(c.args) >= 2 and isinstance(c.args[1], ast.Name) and c.args[1].id in listy)
        ctx.require(many, f"{ename}: no executemany site found")
        S = "connection.dialect.supports_sane_rowcount"
        M = "connection.dialect.supports_sane_multi_rowcount"
        bad = []
        for n in many:
            guards = _eg(g, n)
            atoms: Set[str] = set()
            for t, pol in guards:
                _atoms_of(t, defs, atoms)
            atoms |= {flag, S, M}
            free = sorted(atoms - {flag, S, M})
            sat = None
            for vals in itertools.product([False, True], repeat=len(free)):
                asg = dict(zip(free, vals))
                asg.update({flag: True, S: True, M: False})
                try:
                    if all(_bool_eval(t, asg, defs) == pol for t, pol in guards):
                        sat = {k: v for k, v in asg.items() if k in free}
                        break
                except KeyError as e:
                    ctx.error(f"{ename}: cannot evaluate guard atom {e}")
            if sat is not None:
                bad.append(f"line {g.node(n).lineno} reachable with {flag}, single-row counts reliable, multi-row counts not ({sat})")
        ctx.check(not bad, f"{f.key}:no-executemany-for-versioned-rows", "; ".join(bad), f"{len(many)} executemany site(s) excluded for versioned rows without reliable multi-row counts", f.loc)


@R.rule("C44-R4", floor=6, template="T-FLOW",
        desc="collectors: the WHERE parameter receives the loaded (committed) version, the SET parameter the "
             "generator's result computed from it; the loaded version comes from the committed state")
def r4(ctx):
    for cname in ("_collect_update_commands", "_collect_post_update_commands"):
        f = _collector(ctx, cname)
        vcols = {n for n, v, st in name_stores(f.node) if v is not None and dotted(v) == "mapper.version_id_col"} | {"mapper.version_id_col"}
        gen = {n for n, v, st in name_stores(f.node) if isinstance(v, ast.Call) and callee_is(v, "mapper.version_id_generator")
               and len(v.args) == 1 and isinstance(v.args[0], ast.Name) and v.args[0].id == "update_version_id"}
        where_ok, set_ok, swapped = False, False, False
        for st in walk_stmts(f.node.body):
            if not isinstance(st, ast.Assign):
                continue
            for t in st.targets:
                if isinstance(t, ast.Subscript) and dotted(t.value) == "params" and isinstance(t.slice, ast.Attribute) and dotted(t.slice.value) in vcols:
                    val = st.value
                    is_old = isinstance(val, ast.Name) and val.id == "update_version_id"
                    is_new = (isinstance(val, ast.Name) and val.id in gen) or (isinstance(val, ast.Call) and callee_is(val, "mapper.version_id_generator"))
                    if t.slice.attr == "_label":
                        where_ok = where_ok or is_old
                        swapped = swapped or is_new
                    elif t.slice.attr == "key":
                        set_ok = set_ok or is_new
        ctx.check(where_ok and not swapped, f"{f.key}:where-gets-loaded-version", "the WHERE parameter (version_id_col._label) is not bound to the loaded version", "params[col._label] = update_version_id", f.loc)
        ctx.check(set_ok, f"{f.key}:set-gets-generated-version", "the SET parameter (version_id_col.key) is not bound to version_id_generator(update_version_id)", "params[col.key] = version_id_generator(update_version_id)", f.loc)
    for oname in ("_organize_states_for_save", "_organize_states_for_delete"):
        f = _collector(ctx, oname)
        good = False
        for n, v, st in name_stores(f.node):
            if n == "update_version_id" and isinstance(v, ast.Call) and callee_is(v, "_get_committed_state_attr_by_column") and v.args and dotted(v.args[-1]) == "mapper.version_id_col":
                good = True
        ctx.check(good, f"{f.key}:loaded-version-source", "update_version_id is not read from the COMMITTED state of the version column",
                  "mapper._get_committed_state_attr_by_column(state, dict_, mapper.version_id_col)", f.loc)



# ---------------------------------------------------------------------- C44-R5: when may a versioned row be skipped
# Mapper attributes that enumerate the column properties of ALL tables of the (joined-inheritance) mapper.
MAPPER_WIDE = {
    "_columntoproperty": "column -> property for every column of every table the mapper persists to",
    "_props": "every mapped property of the mapper",
    "attrs": "every mapped property of the mapper (public view of _props)",
    "column_attrs": "every ColumnProperty of the mapper",
    "iterate_properties": "every mapped property of the mapper",
}
_VIEW_METHODS = {"values", "items", "keys"}
_COPY_CALLS = {"list", "tuple", "set", "frozenset", "sorted", "iter", "reversed"}


def _loop_of(pm, node):
    """The loop a `continue` / `break` statement belongs to."""
    child = node
    for anc in ancestors(pm, node):
        if isinstance(anc, (ast.For, ast.While, ast.AsyncFor)) and any(child is x for x in anc.body):
            return anc
        if isinstance(anc, (ast.FunctionDef, ast.AsyncFunctionDef, ast.Lambda)):
            return None
        child = anc
    return None


def _strip_views(expr, single_defs, depth=0):
    """`list(X.values())`, `X.items()`, a local bound once to such an expression -> X."""
    while depth < 6:
        depth += 1
        if isinstance(expr, ast.Name) and expr.id in single_defs:
            expr = single_defs[expr.id]
        elif isinstance(expr, ast.Call) and isinstance(expr.func, ast.Name) and expr.func.id in _COPY_CALLS and len(expr.args) == 1:
            expr = expr.args[0]
        elif isinstance(expr, ast.Call) and isinstance(expr.func, ast.Attribute) and expr.func.attr in _VIEW_METHODS and not expr.args:
            expr = expr.func.value
        else:
            break
    return expr


class _Scan:
    """One history scan that decides whether a versioned state is skipped: the iteration (`for` statement or
    comprehension generator), the function it lives in, the {callee parameter: caller argument} map when it lives in a
    helper, and the places where the scan reports 'found' ([(node, [(test, polarity)] guards inside the iteration)])."""

    def __init__(self, it, target, where, fn, subst, found, lineno):
        self.iter, self.target, self.where, self.fn, self.subst, self.found, self.lineno = it, target, where, fn, subst, found, lineno


def _truthy_const(v):
    """True/False for a constant return value (None for a non-constant); `return` without value is falsy."""
    if v is None:
        return False
    if isinstance(v, ast.Constant):
        return bool(v.value)
    return None


def _scan_from_any(call, fn, subst):
    """`any(<elt> for x in <iter> [if c])`"""
    if not (isinstance(call, ast.Call) and isinstance(call.func, ast.Name) and call.func.id == "any" and len(call.args) == 1
            and isinstance(call.args[0], (ast.GeneratorExp, ast.ListComp)) and len(call.args[0].generators) == 1):
        return None
    comp = call.args[0]
    gen = comp.generators[0]
    guards = [(i, True) for i in gen.ifs] + [(comp.elt, True)]
    return _Scan(gen.iter, gen.target, comp, fn, subst, [(comp.elt, guards)], call.lineno)


def _scan_from_loop(loop, fn, subst, found_nodes, pm):
    found = [(n, list(lexical_guards(pm, n, stop=loop))) for n in found_nodes]
    return _Scan(loop.iter, loop.target, loop, fn, subst, found, loop.lineno)


def _scan_of_predicate(ctx, f, expr, caller_fn, depth=0):
    """(scan, value of the expression when NOTHING was found) for a boolean expression that stands for the outcome of a
    history scan: `any(..)`, a call of a same-module helper that scans, or None."""
    sc = _scan_from_any(expr, caller_fn, {})
    if sc is not None:
        return sc, False
    if not isinstance(expr, ast.Call) or depth > 1:
        return None
    callee = G.resolve_callee(ctx, f, expr)
    if callee is None or callee.module is not f.module or callee.node is f.node:
        return None
    m = G.bind_args(expr, callee)
    if m is None:
        return None
    ctx.functions_analysed.add(callee.key)
    hn = callee.node
    pm = parent_map(hn)
    rets = [r for r in walk_local(hn) if isinstance(r, ast.Return)]
    # (i) `return any(...)` / `return not any(...)`
    body = [st for st in hn.body if not (isinstance(st, ast.Expr) and isinstance(st.value, ast.Constant))]
    if len(body) == 1 and isinstance(body[0], ast.Return) and body[0].value is not None:
        for e, pol in G.ast_atoms(body[0].value, True):
            sc = _scan_from_any(e, hn, m)
            if sc is not None and len(G.ast_atoms(body[0].value, True)) == 1:
                return sc, (not pol)
    # (ii) one loop that returns a constant from inside on 'found' and the opposite constant after it
    loops = [st for st in walk_stmts(hn.body) if isinstance(st, ast.For) and any(isinstance(x, ast.Return) for x in walk_stmts(st.body))]
    if len(loops) != 1:
        return None
    loop = loops[0]
    inside = [r for r in rets if any(a is loop for a in ancestors(pm, r))]
    outside = [r for r in rets if r not in inside]
    vin = {_truthy_const(r.value) for r in inside}
    vout = {_truthy_const(r.value) for r in outside} or {False}
    falls_off = not (hn.body and isinstance(hn.body[-1], ast.Return))
    if falls_off:
        vout.add(False)
    if len(vin) != 1 or len(vout) != 1 or None in vin or None in vout or vin == vout:
        return None
    return _scan_from_loop(loop, hn, m, inside, pm), next(iter(vout))


@R.rule("C44-R5", floor=3, template="T-GUARD/T-FLOW",
        desc="_collect_update_commands: a state whose table carries the version column is skipped (no version-checking "
             "UPDATE) only in the no-change-found outcome of a history scan (for/else, a flag set by the scan, any(..), "
             "or a helper that scans and returns the outcome); that scan ranges over the column properties "
             "of ALL tables of the state's own mapper and reports 'found' (-> UPDATE is emitted) on any added value")
def r5(ctx):
    f = ctx.func(f"{PERS}::_collect_update_commands")
    pm = parent_map(f.node)
    outer = [n for n in walk_local(f.node) if isinstance(n, ast.For) and "update_version_id" in names_in(n.target)]
    ctx.require(len(outer) == 1, "_collect_update_commands: per-state loop binding update_version_id not found")
    outer = outer[0]
    targets = names_in(outer.target)
    stores = name_stores(f.node)
    cnt: Dict[str, int] = {}
    for n, v, st in stores:
        cnt[n] = cnt.get(n, 0) + 1
    single_defs = {n: v for n, v, st in stores if v is not None and cnt[n] == 1}
    bool_defs = {n: v for n, v in single_defs.items() if isinstance(v, (ast.BoolOp, ast.Compare, ast.UnaryOp))}
    # the versioned branch: `update_version_id is not None and M.version_id_col in M._cols_by_table[table]`
    vb, mname = None, None
    for st in walk_stmts(outer.body):
        if not isinstance(st, ast.If):
            continue
        atoms = dict(test_atoms(G.expand_expr(st.test, bool_defs), True))
        if atoms.get("update_version_id is None") is False:
            for txt, pol in atoms.items():
                if pol and ".version_id_col in " in txt and "._cols_by_table[table]" in txt:
                    vb, mname = st, txt.split(".version_id_col", 1)[0]
    ctx.require(vb is not None and mname in targets, "_collect_update_commands: versioned branch not found")
    skips = [n for n in walk_stmts(vb.body) if isinstance(n, ast.Continue) and _loop_of(pm, n) is outer]
    kbase = f.key
    if not skips:
        for aspect in ("skip-only-after-history-scan", "history-scan-domain", "history-scan-leaves-on-added"):
            ctx.ok(f"{kbase}:{aspect}", "a versioned row is never skipped")
        return
    scans, stray = [], []

    def add(sc):
        if not any(x.where is sc.where for x in scans):
            scans.append(sc)

    def flag_scan(name):
        """A boolean local that records the outcome of a scan loop inside the versioned branch: every binding is a constant;
        the truthy ones sit inside one `for` loop (its 'found' exits), the falsy ones outside its body."""
        binds = [(v, st) for n, v, st in stores if n == name]
        if len(binds) < 2 or any(v is None or _truthy_const(v) is None for v, st in binds):
            return None
        vals = {_truthy_const(v) for v, st in binds}
        if vals != {True, False}:
            return None
        for found_val in (True, False):
            fst = [st for v, st in binds if _truthy_const(v) is found_val]
            loops = []
            for st in fst:
                lp = [a for a in ancestors(pm, st) if isinstance(a, ast.For) and a is not outer and any(x is vb for x in ancestors(pm, a))
                      and not any(st is y or any(z is st for z in ast.walk(y)) for y in a.orelse)]
                loops.append(lp[0] if lp else None)
            if loops and all(l is not None and l is loops[0] for l in loops):
                rest = [st for v, st in binds if _truthy_const(v) is not found_val]
                if all(any(any(z is st for z in ast.walk(y)) for y in loops[0].orelse) or (not any(a is loops[0] for a in ancestors(pm, st)) and _pos(st) < _pos(loops[0])) for st in rest):
                    return _scan_from_loop(loops[0], f.node, {}, fst, pm), (not found_val)
        return None

    for c in skips:
        hit = None
        # (1) the nothing-found exit of a for/else scan
        child = c
        for anc in ancestors(pm, c):
            if anc is vb:
                break
            if isinstance(anc, ast.For) and any(child is x for x in anc.orelse):
                breaks = [b for b in walk_stmts(anc.body) if isinstance(b, ast.Break) and _loop_of(pm, b) is anc]
                hit = _scan_from_loop(anc, f.node, {}, breaks, pm)
                break
            child = anc
        # (2) a guard that stands for 'the scan found nothing': any(..) / helper / flag
        if hit is None:
            for t, pol in lexical_guards(pm, c, stop=vb):
                for e, p in G.ast_atoms(t, pol):
                    e2 = G.resolve_name(e, single_defs)
                    r = _scan_of_predicate(ctx, f, e2, f.node)
                    if r is None and isinstance(e, ast.Name):
                        r = flag_scan(e.id)
                    if r is not None and r[1] == p:
                        hit = r[0]
                    elif r is not None:
                        stray.append(c)  # skipped when the scan FOUND a change
                        hit = False
        if hit is None:
            stray.append(c)
        elif hit is not False:
            add(hit)
    ctx.check(not stray, f"{kbase}:skip-only-after-history-scan",
              f"a state whose table carries the version column is skipped (no version check, no increment) at line(s) "
              f"{[c.lineno for c in stray]} without a scan of the state's attribute history finding no change", 
              f"{len(skips)} skip exit(s), each the nothing-found outcome of a history scan", f.loc)
    if not scans:
        for aspect in ("history-scan-domain", "history-scan-leaves-on-added"):
            ctx.violation(f"{kbase}:{aspect}", "cannot hold: versioned rows are skipped without any history scan", f.loc)
        return
    dom_bad, dom_ok, test_bad = [], [], []
    for scan in scans:
        in_helper = scan.fn is not f.node
        if in_helper:
            hstores = name_stores(scan.fn)
            hc: Dict[str, int] = {}
            for n, v, st in hstores:
                hc[n] = hc.get(n, 0) + 1
            sdefs = {n: G.substitute(v, scan.subst) for n, v, st in hstores if v is not None and hc[n] == 1 and n not in scan.subst}
        else:
            sdefs = single_defs
        it = G.substitute(scan.iter, scan.subst) if in_helper else scan.iter
        dom = _strip_views(it, sdefs)
        d = dotted(dom) if isinstance(dom, (ast.Attribute, ast.Name)) else None
        reads = names_in(dom)
        attrs = {n.attr for n in ast.walk(dom) if isinstance(n, ast.Attribute)}
        table_scoped = ("table" in reads and "table" in f.params) or any(a.endswith("_table") or "by_table" in a or a.endswith("_to_col") for a in attrs)
        # locals derived from the table (pks, propkey_to_col ...)
        for nm in reads:
            v = sdefs.get(nm)
            if v is not None and "table" in names_in(v):
                table_scoped = True
        if table_scoped:
            dom_bad.append(f"line {scan.lineno}: the scan ranges over `{unparse(it)}`, the columns/properties of ONE table; a change "
                           f"that lives only in another table of the mapper (joined inheritance with an intermediate table) is not seen")
        elif d is not None and d.count(".") == 1 and d.split(".")[0] == mname and d.split(".")[1] in MAPPER_WIDE:
            dom_ok.append(d)
        elif d is not None and d.split(".")[0] != mname or (d is not None and d.count(".") > 1 and d.rsplit(".", 1)[1] in MAPPER_WIDE):
            dom_bad.append(f"line {scan.lineno}: the scan ranges over `{unparse(it)}`, which is not the property collection of the state's own mapper `{mname}` "
                           f"(an ancestor mapper does not know the columns of the subclass tables)")
        else:
            ctx.error(f"_collect_update_commands: cannot classify the domain `{unparse(it)}` of the history scan at line {scan.lineno} "
                      f"(known mapper-wide collections: {sorted(MAPPER_WIDE)})")
        # the scan reports 'found' on an added value
        body_stores = name_stores(scan.where) if isinstance(scan.where, ast.For) else []
        hist = {}
        for n, v, st in body_stores:
            if isinstance(v, ast.Call) and isinstance(v.func, ast.Attribute) and v.func.attr == "get_history":
                hist[n] = v
        derived = set(names_in(scan.target))
        for _ in range(3):
            for n, v, st in body_stores:
                if v is not None and names_in(v) & derived:
                    derived.add(n)
        if not scan.found:
            test_bad.append(f"line {scan.lineno}: the scan never leaves early, so every state without own-table changes is skipped")
        for node, guards in scan.found:
            good, wrong = False, []
            for t, pol in guards:
                for e, p in G.ast_atoms(t, pol):
                    # <history>.added / <history>.has_changes()
                    base, what = None, None
                    if isinstance(e, ast.Attribute):
                        base, what = e.value, e.attr
                    elif isinstance(e, ast.Call) and isinstance(e.func, ast.Attribute) and not e.args:
                        base, what = e.func.value, e.func.attr + "()"
                    if base is None:
                        continue
                    call = hist.get(base.id) if isinstance(base, ast.Name) else base
                    if not (isinstance(call, ast.Call) and isinstance(call.func, ast.Attribute) and call.func.attr == "get_history"):
                        continue
                    txt = unparse(e)
                    if what in ("added", "has_changes()") and p:
                        recv_names = names_in(call.func.value)
                        a0 = G.substitute(call.args[0], scan.subst) if (call.args and in_helper) else (call.args[0] if call.args else None)
                        if (recv_names & derived) and isinstance(a0, ast.Name) and a0.id in targets:
                            good = True
                        else:
                            wrong.append(f"{txt} (history of `{unparse(call.func.value)}` is not that of the scanned property of this state)")
                    else:
                        wrong.append(f"{'' if p else 'not '}{txt}")
            if not good:
                if wrong:
                    test_bad.append(f"line {getattr(node, 'lineno', scan.lineno)}: the scan leaves on {wrong}, not on an added (new) value of the scanned property")
                else:
                    ctx.error(f"_collect_update_commands: cannot read the exit test of the history scan at line {getattr(node, 'lineno', scan.lineno)}")
    ctx.check(not dom_bad, f"{kbase}:history-scan-domain", "; ".join(dom_bad), f"scan over {dom_ok} (all tables of the state's mapper)", f.loc)
    ctx.check(not test_bad, f"{kbase}:history-scan-leaves-on-added", "; ".join(test_bad), "reports a change (-> versioned UPDATE) when get_history(state, ..).added is non-empty", f.loc)


# ---------------------------------------------------------------------- C44-R6: a countable mismatch raises
def _boolish(v) -> bool:
    if isinstance(v, ast.Constant):
        return isinstance(v.value, bool)
    return isinstance(v, (ast.BoolOp, ast.Compare, ast.Name, ast.Attribute)) or (isinstance(v, ast.UnaryOp) and isinstance(v.op, ast.Not))


def _is_len_call(x) -> bool:
    return isinstance(x, ast.Call) and isinstance(x.func, ast.Name) and x.func.id == "len"


def _single_record_atom(e, lens=None) -> bool:
    """`len(x) == 1` / `1 == len(x)` / `n == 1` where the local n is bound once, to `len(x)`"""
    if isinstance(e, ast.Compare) and len(e.ops) == 1 and isinstance(e.ops[0], ast.Eq):
        a, b = e.left, e.comparators[0]
        for x, y in ((a, b), (b, a)):
            x = G.resolve_name(x, lens or {})
            if isinstance(x, ast.Call) and isinstance(x.func, ast.Name) and x.func.id == "len" and isinstance(y, ast.Constant) and y.value == 1:
                return True
    return False


def _atoms6(expr, env, out, depth=0):
    if isinstance(expr, ast.Constant):
        return
    if isinstance(expr, ast.UnaryOp) and isinstance(expr.op, ast.Not):
        return _atoms6(expr.operand, env, out, depth)
    if isinstance(expr, ast.BoolOp):
        for v in expr.values:
            _atoms6(v, env, out, depth)
        return
    if isinstance(expr, ast.Name) and expr.id in env and depth < 6:
        return _atoms6(env[expr.id], env, out, depth + 1)
    out[unparse(expr)] = expr


def _eval6(expr, asg, env, depth=0):
    if isinstance(expr, ast.Constant):
        return bool(expr.value)
    if isinstance(expr, ast.UnaryOp) and isinstance(expr.op, ast.Not):
        return not _eval6(expr.operand, asg, env, depth)
    if isinstance(expr, ast.BoolOp):
        vals = [_eval6(v, asg, env, depth) for v in expr.values]
        return all(vals) if isinstance(expr.op, ast.And) else any(vals)
    if isinstance(expr, ast.Name) and expr.id in env and depth < 6:
        return _eval6(env[expr.id], asg, env, depth + 1)
    return asg[unparse(expr)]


def _sat(guards, fixed, env, multi_record=False, lens=None):
    """An assignment of the free atoms under which every (test, polarity) holds, or None."""
    atoms: Dict[str, ast.AST] = {}
    for t, pol in guards:
        _atoms6(t, env, atoms)
    forced = dict(fixed)
    if multi_record:
        for txt, e in atoms.items():
            if _single_record_atom(e, lens):
                forced[txt] = False
    free = sorted(a for a in atoms if a not in forced)
    if len(free) > 14:
        return "too-many"
    for vals in itertools.product([True, False], repeat=len(free)):
        asg = dict(zip(free, vals))
        asg.update(forced)
        if all(_eval6(t, asg, env) == pol for t, pol in guards):
            return asg
    return None


@R.rule("C44-R6", floor=6, template="T-BOOL",
        desc="each emitter, each way of executing (one statement per row / executemany): for a versioned table on a "
             "dialect that counts the rows of the statements issued that way reliably, a count mismatch can reach the "
             "StaleDataError raise for ANY number of records (in particular 2 or more); every reaching definition of a "
             "boolean local in the decision is taken into account")
def r6(ctx):
    S = "connection.dialect.supports_sane_rowcount"
    M = "connection.dialect.supports_sane_multi_rowcount"
    for ename in EMITTERS:
        f = _emitter(ctx, ename)
        flag = _version_flag_loose(ctx, f)
        ctx.require(flag, f"{ename}: versioning flag not found")
        g = ctx.cfg(f)
        pm = parent_map(f.node)
        raises = g.find(lambda n: n.kind == "stmt" and isinstance(n.stmt, ast.Raise) and n.stmt.exc is not None and "StaleDataError" in unparse(n.stmt.exc).split("(")[0])
        if not raises:
            for kind in ("row-by-row", "executemany"):
                ctx.violation(f"{f.key}:mismatch-raises-when-countable[{kind}]", "cannot hold: the emitter never raises StaleDataError", f.loc)
            continue
        stores = name_stores(f.node)
        by_name: Dict[str, list] = {}
        for n, v, st in stores:
            by_name.setdefault(n, []).append((v, st))
        single_defs = {n: d[0][0] for n, d in by_name.items() if len(d) == 1 and d[0][0] is not None and _boolish(d[0][0]) and n != flag}
        multi_defs = {n: d for n, d in by_name.items() if len(d) > 1 and all(v is not None and _boolish(v) for v, st in d) and n != flag}
        listy = {n for n, v, st in stores if isinstance(v, (ast.ListComp, ast.List))}
        lens = G.single_defs(f.node, _is_len_call)
        is_exec = lambda c: isinstance(c.func, ast.Attribute) and c.func.attr == "execute" and dotted(c.func.value) == "connection"
        sites = {"row-by-row": [], "executemany": []}
        for n in call_nodes(g, is_exec):
            for part in calls_in(g.node(n).stmt) if not isinstance(g.node(n).stmt, (ast.For, ast.If, ast.While, ast.With)) else []:
                if is_exec(part):
                    many = len(part.args) >= 2 and isinstance(part.args[1], ast.Name) and part.args[1].id in listy
                    sites["executemany" if many else "row-by-row"].append(n)
        ctx.require(sites["row-by-row"] and sites["executemany"], f"{ename}: expected both row-by-row and executemany execute sites")
        # one iteration of the outermost loop around the raise
        loops = [a for a in ancestors(pm, g.node(raises[0]).stmt) if isinstance(a, ast.For)]
        avoid = [n for n in g.nodes_for(loops[-1]) if g.node(n).kind == "for"] if loops else []
        reach_cache: Dict[int, Set[int]] = {}

        def within(a):
            if a not in reach_cache:
                reach_cache[a] = g.reachable([a], avoid=avoid)
            return reach_cache[a]

        for kind, nodes in sites.items():
            scenarios = [{flag: True, S: True, M: True}] + ([{flag: True, S: True, M: False}] if kind == "row-by-row" else [])
            bad, evaluated = [], 0
            for e in sorted(set(nodes)):
                ge = _eg(g, e)
                for fixed in scenarios:
                    label = f"{flag}, reliable single-statement counts, executemany counts {'reliable' if fixed[M] else 'NOT reliable'}"
                    reachable_raise = False
                    blockers: List[str] = []
                    feasible_site = False
                    for r in raises:
                        gr = _eg(g, r)
                        # multi-definition boolean locals read by the decision: definitions that lie on a path with e
                        names_read = set()
                        for t, pol in ge + gr:
                            stack = [t]
                            seen_n = set()
                            while stack:
                                x = stack.pop()
                                for nm in names_in(x):
                                    if nm in seen_n:
                                        continue
                                    seen_n.add(nm)
                                    if nm in single_defs:
                                        stack.append(single_defs[nm])
                                    names_read.add(nm)
                        choices = []
                        for nm in sorted(names_read & set(multi_defs)):
                            cands = []
                            for v, st in multi_defs[nm]:
                                dn = [x for x in g.nodes_for(st) if g.node(x).kind == "stmt"]
                                if not dn:
                                    continue
                                d = dn[0]
                                if r in within(d) and (e in within(d) or d in within(e)):
                                    if _sat(_eg(g, d), fixed, single_defs) is not None:
                                        cands.append((nm, v, st))
                            if cands:
                                choices.append(cands)
                        for combo in itertools.product(*choices):
                            env = dict(single_defs)
                            env.update({nm: v for nm, v, st in combo})
                            if _sat(ge, fixed, env) is None:
                                continue  # this way of executing is not used in the scenario
                            feasible_site = True
                            res = _sat(ge + gr, fixed, env, multi_record=True, lens=lens)
                            ctx.require(res != "too-many", f"{ename}: decision has too many atoms")
                            if res is None:
                                conj = []
                                for t, pol in gr:
                                    if pol and isinstance(t, ast.BoolOp) and isinstance(t.op, ast.And):
                                        conj.extend((v, True) for v in t.values)
                                    else:
                                        conj.append((t, pol))
                                why = []
                                for t, pol in conj:
                                    if _sat(ge + [(t, pol)], fixed, env, multi_record=True, lens=lens) is None:
                                        chosen = [f"{nm} = {unparse(v)} at line {st.lineno}" for nm, v, st in combo if nm in names_in(t)]
                                        why.append(f"`{'' if pol else 'not '}{unparse(t)}`" + (f" ({', '.join(chosen)})" if chosen else ""))
                                blockers.append(" and ".join(why) if why else "the conjunction of its conditions")
                            else:
                                reachable_raise = True
                    if not feasible_site:
                        continue
                    evaluated += 1
                    if blockers:
                        bad.append(f"execute at line {g.node(e).lineno} [{label}], 2+ records: a row-count mismatch cannot reach the StaleDataError raise; it requires {' / '.join(sorted(set(blockers)))}, which is false here")
            ctx.check(not bad, f"{f.key}:mismatch-raises-when-countable[{kind}]", " | ".join(bad),
                      f"{len(set(nodes))} site(s), {evaluated} reachable (site, capability) scenario(s): StaleDataError reachable for any record count" if evaluated
                      else f"{len(set(nodes))} site(s): this way of executing is never used for a versioned table with countable rows", f.loc)


# ---------------------------------------------------------------------- C44-R7: server-generated version is re-read in the same flush
_FINAL_WORDS = {"version_id_col", "version_id_generator", "_version_id_prop", "_version_id_has_server_side_value", "_load_on_ident", "unloaded"}
_WANT_FINAL = _mentions(_FINAL_WORDS)
_RELOADERS = {"_load_on_ident", "load_on_ident", "_load_on_pk_identity", "load_on_pk_identity"}


def _mentions_version_prop(e) -> bool:
    return any(isinstance(n, ast.Attribute) and n.attr in ("_version_id_prop", "version_id_col") for n in ast.walk(e))


def _is_version_config(d: str) -> bool:
    return any(seg.startswith("version_id_") or seg.startswith("_version_id_") for seg in d.split(".")[1:])


@R.rule("C44-R7", floor=2, template="T-GUARD/T-PATH",
        desc="_finalize_insert_update_commands (runs after every INSERT and UPDATE of a flush): when the version is generated "
             "by the server, a version attribute that is still unloaded after the statement is scheduled for an immediate "
             "re-read under conditions that depend only on the versioning configuration and on the attribute being unloaded "
             "(not on insert-vs-update or any option), and once scheduled the re-read is performed before the next state is "
             "handled -- otherwise the next flush compares against a version this session never wrote")
def r7(ctx):
    f = G.normal_form(ctx, ctx.func(f"{PERS}::_finalize_insert_update_commands"), want=_WANT_FINAL)
    g = ctx.cfg(f.node)
    defs = G.single_defs(f.node)
    kbase = f.key
    reloads = []
    for c in calls_in(f.node):
        nm = (dotted(c.func) or "").split(".")[-1]
        if nm in _RELOADERS:
            for k in c.keywords:
                if k.arg == "only_load_props":
                    reloads.append((c, k.value))
    ctx.require(reloads, f"{kbase}: no loader call with only_load_props= found (the targeted re-read of expired attributes)")
    lists = {v.id for c, v in reloads if isinstance(v, ast.Name)}
    # statements that put the version attribute's key into a list handed to only_load_props (or the loader call itself)
    sched = []
    for st in walk_stmts(f.node.body):
        tgt, val = None, None
        if isinstance(st, ast.Expr) and isinstance(st.value, ast.Call) and isinstance(st.value.func, ast.Attribute) \
                and st.value.func.attr in ("extend", "append", "add", "update", "insert") and isinstance(st.value.func.value, ast.Name) and st.value.args:
            tgt, val = st.value.func.value.id, st.value.args[-1]
        elif isinstance(st, ast.AugAssign) and isinstance(st.target, ast.Name):
            tgt, val = st.target.id, st.value
        elif isinstance(st, ast.Assign) and len(st.targets) == 1 and isinstance(st.targets[0], ast.Name):
            tgt, val = st.targets[0].id, st.value
        if tgt in lists and val is not None and _mentions_version_prop(G.expand_expr(val, defs, keep=lists)):
            sched.append((st, tgt))
    for c, v in reloads:
        if not isinstance(v, ast.Name) and _mentions_version_prop(G.expand_expr(v, defs)):
            st = next((x for x in walk_stmts(f.node.body) if any(y is c for y in ast.walk(x)) and not isinstance(x, (ast.If, ast.For, ast.While, ast.With, ast.Try))), None)
            if st is not None:
                sched.append((st, None))
    if not sched:
        ctx.violation(f"{kbase}:version-reload-guard", "the version attribute is never scheduled for a re-read (only_load_props never receives "
                      "mapper._version_id_prop.key): with a server-generated version and no RETURNING the state keeps an expired version "
                      "that the next flush loads from whatever another transaction wrote", f.loc)
        ctx.violation(f"{kbase}:version-reload-performed", "cannot hold: the version attribute is never scheduled", f.loc)
        return
    bool_defs = {n: v for n, v in defs.items() if isinstance(v, (ast.BoolOp, ast.Compare, ast.UnaryOp))}

    def offending(guards, allow_names):
        bad = []
        for t, pol in guards:
            for e, p in G.ast_atoms(G.expand_expr(t, bool_defs), pol):
                e2 = G.expand_expr(e, defs, keep=allow_names)
                if isinstance(e2, ast.Compare) and len(e2.ops) == 1 and isinstance(e2.ops[0], (ast.In, ast.NotIn)) and _mentions_version_prop(e2.left):
                    continue  # `<version key> in state.unloaded` / `not in state_dict`: is the attribute loaded
                for r in sorted(dotted_reads(e2)):
                    if r in ("None", "True", "False") or r in allow_names or _is_version_config(r):
                        continue
                    if any(r != o and o.startswith(r + ".") for o in dotted_reads(e2)):
                        continue
                    bad.append(r)
        return bad

    off = set()
    for st, _l in sched:
        for n in g.nodes_for(st)[:1]:
            off.update(offending(_eg(g, n), set()))
    for c, v in reloads:
        if isinstance(v, ast.Name) and v.id in {l for _s, l in sched}:
            for n in g.nodes_containing(c)[:1]:
                off.update(offending(_eg(g, n), {v.id}))
    if not off:
        ctx.ok(f"{kbase}:version-reload-guard", "scheduled under the versioning configuration and `key in state.unloaded` only")
    for r in sorted(off):
        ctx.violation(f"{kbase}:version-reload-guard[{r}]",
                      f"whether the server-generated version is re-read after the statement also depends on `{r}`: when that condition "
                      "fails the state keeps an expired version attribute, the next flush lazy-loads the version another "
                      "transaction wrote and overwrites that transaction's row without StaleDataError", f.loc)
    # once scheduled, the re-read happens before the next state / the end of the function
    per_state = [n.id for n in g.nodes if n.kind == "for"]
    bad_paths = []
    for st, lname in sched:
        rl = [i for c, v in reloads if (lname is None and any(y is c for y in ast.walk(st))) or (isinstance(v, ast.Name) and v.id == lname)
              for i in g.nodes_containing(c)]
        if lname is None:
            continue

        def edge_ok(a, b, lab, lname=lname):
            if lab == "exc":
                return False
            nd = g.node(a)
            if nd.kind == "test" and lab in ("true", "false") and hasattr(nd.stmt, "test"):
                for e, p in G.ast_atoms(nd.stmt.test, lab == "true"):
                    if isinstance(e, ast.Name) and e.id == lname and not p:
                        return False  # the list is not empty after the scheduling statement
            return True

        w = g.must_pass(g.nodes_for(st), [g.exit] + per_state, rl, edge_ok=edge_ok)
        if w is not None:
            bad_paths.append((st, w))
    ctx.check(not bad_paths, f"{kbase}:version-reload-performed",
              "after the version attribute has been scheduled (line " + ", ".join(str(st.lineno) for st, _w in bad_paths) + ") a normal path reaches the next "
              "state without the loader call that receives the list as only_load_props: the scheduled re-read is skipped",
              "every path from the scheduling statement passes the loader call", f.loc, bad_paths[0][1] if bad_paths else None)


# ---------------------------------------------------------------------- self-test battery
R.mutant("update-criterion-unconditional", PERS,
         sub("        if needs_version_id:\n            clauses._append_inplace(\n                mapper.version_id_col\n                == sql.bindparam(\n                    mapper.version_id_col._label,\n                    type_=mapper.version_id_col.type,\n                )\n            )\n\n        if existing_stmt is not None:",
             "        if True:\n            clauses._append_inplace(\n                mapper.version_id_col\n                == sql.bindparam(\n                    mapper.version_id_col._label,\n                    type_=mapper.version_id_col.type,\n                )\n            )\n\n        if existing_stmt is not None:"), "C44-R1")
R.mutant("delete-criterion-dropped", PERS,
         sub("        if need_version_id:\n            clauses._append_inplace(\n                mapper.version_id_col\n                == sql.bindparam(\n                    mapper.version_id_col.key, type_=mapper.version_id_col.type\n                )\n            )\n", ""), "C44-R1")
R.mutant("delete-bind-key-mismatch", PERS, sub("                    mapper.version_id_col.key, type_=mapper.version_id_col.type\n", "                    mapper.version_id_col._label, type_=mapper.version_id_col.type\n"), "C44-R1")
R.mutant("flag-ignores-table", PERS, sub("    need_version_id = (\n        mapper.version_id_col is not None\n        and mapper.version_id_col in mapper._cols_by_table[table]\n    )\n", "    need_version_id = (\n        mapper.version_id_col is not None\n    )\n"), "C44-R1")
R.mutant("update-no-stale-raise", PERS,
         sub("        if check_rowcount:\n            if rows != len(records):\n                raise orm_exc.StaleDataError(\n                    \"UPDATE statement on table '%s' expected to \"\n                    \"update %d row(s); %d were matched.\"\n                    % (table.description, len(records), rows)\n                )\n\n        elif needs_version_id:\n            util.warn(\n                \"Dialect %s does not support updated rowcount \"\n                \"- versioning cannot be verified.\"\n                % c.dialect.dialect_description\n            )\n\n\ndef _emit_insert_statements(",
             "        if check_rowcount:\n            if rows != len(records):\n                util.warn(\"stale\")\n\n\ndef _emit_insert_statements("), "C44-R2")
R.mutant("post-update-check-depends-on-option", PERS,
         sub("            check_rowcount = assert_multirow or (\n                assert_singlerow and len(multiparams) == 1\n            )\n\n            c = connection.execute(\n                statement, multiparams, execution_options=execution_options\n            )\n\n            rows += c.rowcount\n            for i, (",
             "            check_rowcount = base_mapper.confirm_deleted_rows and (assert_multirow or (\n                assert_singlerow and len(multiparams) == 1\n            ))\n\n            c = connection.execute(\n                statement, multiparams, execution_options=execution_options\n            )\n\n            rows += c.rowcount\n            for i, ("), "C44-R2")
R.mutant("delete-warn-only-for-versioned", PERS, sub("            if not need_version_id:\n                only_warn = True\n", "            if need_version_id:\n                only_warn = True\n"), "C44-R2")
R.mutant("update-executemany-for-versioned", PERS, sub("        allow_executemany = not return_defaults and not needs_version_id\n", "        allow_executemany = not return_defaults\n"), "C44-R3")
R.mutant("post-update-executemany-always", PERS, sub("        allow_executemany = not needs_version_id or assert_multirow\n", "        allow_executemany = not needs_version_id or assert_singlerow\n"), "C44-R3")
R.mutant("delete-executemany-for-versioned", PERS, sub("        if (\n            need_version_id\n            and not connection.dialect.supports_sane_multi_rowcount\n        ):\n            if connection.dialect.supports_sane_rowcount:", "        if (\n            need_version_id\n            and not connection.dialect.supports_sane_multi_rowcount\n        ):\n            if not connection.dialect.supports_sane_rowcount:"), "C44-R3")
R.mutant("collector-swaps-old-and-new", PERS,
         sub("            params[col._label] = update_version_id\n\n            if (\n                bulk or col.key not in params\n            ) and mapper.version_id_generator is not False:\n                val = mapper.version_id_generator(update_version_id)\n                params[col.key] = val\n",
             "            if (\n                bulk or col.key not in params\n            ) and mapper.version_id_generator is not False:\n                val = mapper.version_id_generator(update_version_id)\n                params[col._label] = val\n                params[col.key] = update_version_id\n"), "C44-R4")
R.mutant("collector-no-increment", PERS, sub("                val = mapper.version_id_generator(update_version_id)\n                params[col.key] = val\n            elif mapper.version_id_generator is False and no_params:", "                val = update_version_id\n                params[col.key] = val\n            elif mapper.version_id_generator is False and no_params:"), "C44-R4")
R.mutant("loaded-version-from-current-state", PERS,
         sub("            update_version_id = mapper._get_committed_state_attr_by_column(\n                state, dict_, mapper.version_id_col\n            )\n        else:\n            update_version_id = None\n",
             "            update_version_id = mapper._get_state_attr_by_column(\n                state, dict_, mapper.version_id_col\n            )\n        else:\n            update_version_id = None\n"), "C44-R4")
# benign
R.mutant("benign-rename-flag", PERS, sub("need_version_id", "versioned", count=5), None)
R.mutant("benign-log", PERS, sub("        allow_executemany = not needs_version_id or assert_multirow\n", "        allow_executemany = not needs_version_id or assert_multirow\n        _n = len(records)\n"), None)
# --- C44-R2 (per-condition vocabulary keys, generalised warn-only)
R.mutant("delete-second-foreign-condition", PERS,
         sub("            base_mapper.confirm_deleted_rows\n            and rows_matched > -1\n", "            base_mapper.confirm_deleted_rows\n            and not uowtransaction.session.info\n            and rows_matched > -1\n"), "C44-R2")
R.mutant("seed2-warn-only-when-nothing-matched", PERS,
         sub("            if not need_version_id:\n                only_warn = True\n\n            rows_matched = c.rowcount\n",
             "            rows_matched = c.rowcount\n\n            if not need_version_id or not rows_matched:\n                only_warn = True\n"), "C44-R2")
R.mutant("warn-only-computed-not-constant", PERS,
         sub("            if not need_version_id:\n                only_warn = True\n\n            rows_matched = c.rowcount\n",
             "            rows_matched = c.rowcount\n            only_warn = not need_version_id or not rows_matched\n"), "C44-R2")
R.mutant("benign-warn-only-computed", PERS,
         sub("            if not need_version_id:\n                only_warn = True\n\n            rows_matched = c.rowcount\n",
             "            rows_matched = c.rowcount\n            only_warn = not need_version_id\n"), None)
# --- C44-R5
_SCAN = "                for prop in mapper._columntoproperty.values():\n                    history = state.manager[prop.key].impl.get_history(\n"
R.mutant("seed1-scan-own-table-only", PERS,
         sub(_SCAN, "                for col in mapper.local_table.c:\n                    prop = mapper._columntoproperty.get(col)\n                    if prop is None:\n                        continue\n                    history = state.manager[prop.key].impl.get_history(\n"), "C44-R5")
R.mutant("scan-version-table-columns-only", PERS,
         sub(_SCAN, "                for prop in [mapper._columntoproperty[c] for c in mapper._cols_by_table[table]]:\n                    history = state.manager[prop.key].impl.get_history(\n"), "C44-R5")
R.mutant("scan-base-mapper-properties", PERS,
         sub(_SCAN, "                for prop in mapper.base_mapper._columntoproperty.values():\n                    history = state.manager[prop.key].impl.get_history(\n"), "C44-R5")
R.mutant("skip-without-scan", PERS,
         sub("                    if history.added:\n                        break\n                else:\n                    # no net change, break\n                    continue\n",
             "                    if history.added:\n                        break\n                continue\n"), "C44-R5")
R.mutant("scan-leaves-on-deleted", PERS,
         sub("                    if history.added:\n                        break\n                else:\n                    # no net change, break\n",
             "                    if history.deleted:\n                        break\n                else:\n                    # no net change, break\n"), "C44-R5")
R.mutant("benign-scan-items-and-local", PERS,
         sub(_SCAN, "                colprops = list(mapper._columntoproperty.items())\n                for _c, prop in colprops:\n                    history = state.manager[prop.key].impl.get_history(\n"), None)
R.mutant("benign-scan-column-attrs", PERS,
         sub(_SCAN, "                for prop in mapper.column_attrs:\n                    history = state.manager[prop.key].impl.get_history(\n"), None)
# --- C44-R6
R.mutant("post-update-executemany-checks-single-record-only", PERS,
         sub("            check_rowcount = assert_multirow or (\n                assert_singlerow and len(multiparams) == 1\n            )\n",
             "            check_rowcount = assert_singlerow and len(multiparams) == 1\n"), "C44-R6")
R.mutant("update-row-by-row-needs-multirow", PERS,
         sub("            if not allow_executemany:\n                check_rowcount = enable_check_rowcount and assert_singlerow\n",
             "            if not allow_executemany:\n                check_rowcount = enable_check_rowcount and assert_multirow\n"), "C44-R6")
R.mutant("delete-check-single-record-only", PERS,
         sub("                connection.dialect.supports_sane_multi_rowcount\n                or len(del_objects) == 1\n                # versioned rows were deleted one statement at a time above\n                # on such dialects; the summed count is reliable\n                or need_version_id\n            )\n        ):",
             "                len(del_objects) == 1\n            )\n        ):"), "C44-R6")
R.mutant("delete-only-warn-default-true", PERS, sub("        only_warn = False\n", "        only_warn = True\n"), "C44-R6")
R.mutant("benign-delete-row-by-row-verified-reordered", PERS,
         sub("                connection.dialect.supports_sane_multi_rowcount\n                or len(del_objects) == 1\n                # versioned rows were deleted one statement at a time above\n                # on such dialects; the summed count is reliable\n                or need_version_id\n            )\n        ):",
             "                need_version_id\n                or connection.dialect.supports_sane_multi_rowcount\n                or len(del_objects) == 1\n            )\n        ):"), None)


# ---------------------------------------------------------------------- rob-G1: benign refactoring families
# (a) DELETE emitter: renamed list local, `dialect` alias, inverted inner if/else, `len(..)` replaced by the local that holds it
_DEL_INNER = ("            if connection.dialect.supports_sane_rowcount:\n                rows_matched = 0\n                # execute deletes individually so that versioned\n                # rows can be verified\n"
              "                for params in del_params:\n                    c = connection.execute(\n                        statement, params, execution_options=execution_options\n                    )\n"
              "                    rows_matched += c.rowcount\n            else:\n                util.warn(\n                    \"Dialect %s does not support deleted rowcount \"\n                    \"- versioning cannot be verified.\"\n"
              "                    % connection.dialect.dialect_description\n                )\n                connection.execute(\n                    statement, del_params, execution_options=execution_options\n                )\n")
_DEL_INNER_INV = ("            if not dialect.supports_sane_rowcount:\n                util.warn(\n                    \"Dialect %s does not support deleted rowcount \"\n                    \"- versioning cannot be verified.\"\n"
                  "                    % dialect.dialect_description\n                )\n                connection.execute(\n                    statement, del_params, execution_options=execution_options\n                )\n"
                  "            else:\n                rows_matched = 0\n                for params in del_params:\n                    c = connection.execute(\n                        statement, params, execution_options=execution_options\n                    )\n"
                  "                    rows_matched += c.rowcount\n")
_DEL_G4 = [
    sub("del_objects", "del_params", count=6),
    sub("        del_params = [params for params, connection in recs]\n", "        del_params = [params for params, connection in recs]\n        dialect = connection.dialect\n"),
    sub("        if (\n            need_version_id\n            and not connection.dialect.supports_sane_multi_rowcount\n        ):\n", "        if need_version_id and not dialect.supports_sane_multi_rowcount:\n"),
]
_DEL_TAIL = sub("                connection.dialect.supports_sane_multi_rowcount\n                or len(del_params) == 1\n", "                dialect.supports_sane_multi_rowcount\n                or expected == 1\n")
R.mutant("benign-delete-alias-inverted-branches-len-local", PERS, chain(*_DEL_G4, sub(_DEL_INNER, _DEL_INNER_INV), _DEL_TAIL), None)
R.mutant("delete-alias-form-executemany-when-single-counts-reliable", PERS,
         chain(*_DEL_G4, sub(_DEL_INNER, _DEL_INNER_INV.replace("if not dialect.supports_sane_rowcount:", "if dialect.supports_sane_rowcount:")), _DEL_TAIL), "C44-R3")
R.mutant("delete-alias-form-check-single-record-only", PERS,
         chain(*_DEL_G4, sub(_DEL_INNER, _DEL_INNER_INV),
               sub("                connection.dialect.supports_sane_multi_rowcount\n                or len(del_params) == 1\n                # versioned rows were deleted one statement at a time above\n                # on such dialects; the summed count is reliable\n                or need_version_id\n",
                   "                expected == 1\n")), "C44-R6")
# (b) UPDATE emitters: the duplicated row-count check extracted into a helper
_CHK = "            if rows != len(records):\n                raise orm_exc.StaleDataError(\n                    \"UPDATE statement on table '%s' expected to \"\n                    \"update %d row(s); %d were matched.\"\n                    % (table.description, len(records), rows)\n                )\n"
_HELPER_AT = "def _emit_insert_statements(\n"
_VERIFY = ("def _verify_update_rowcount(table, expected, matched):\n    \"\"\"Raise StaleDataError if an UPDATE matched another number of rows than were sent.\"\"\"\n\n"
           "    if matched != expected:\n        raise orm_exc.StaleDataError(\n            \"UPDATE statement on table '%s' expected to \"\n            \"update %d row(s); %d were matched.\"\n"
           "            % (table.description, expected, matched)\n        )\n\n\n")
R.mutant("benign-rowcount-check-extracted", PERS,
         chain(sub(_CHK, "            _verify_update_rowcount(table, len(records), rows)\n", count=2), sub(_HELPER_AT, _VERIFY + _HELPER_AT)), None)
R.mutant("benign-rowcount-predicate-helper", PERS,
         chain(sub("            if rows != len(records):\n", "            if _rowcount_differs(rows, len(records)):\n", count=2),
               sub(_HELPER_AT, "def _rowcount_differs(matched, expected):\n    return matched != expected\n\n\n" + _HELPER_AT)), None)
R.mutant("benign-stale-raise-extracted", PERS,
         chain(sub(_CHK, "            if rows != len(records):\n                _raise_stale_update(table, len(records), rows)\n", count=2),
               sub(_HELPER_AT, "def _raise_stale_update(table, expected, matched):\n    raise orm_exc.StaleDataError(\n        \"UPDATE statement on table '%s' expected to \"\n        \"update %d row(s); %d were matched.\"\n"
                               "        % (table.description, expected, matched)\n    )\n\n\n" + _HELPER_AT)), None)
R.mutant("benign-update-dialect-alias", PERS,
         chain(sub("        assert_singlerow = connection.dialect.supports_sane_rowcount\n\n        assert_multirow = (\n            assert_singlerow\n            and connection.dialect.supports_sane_multi_rowcount\n        )\n",
                   "        dialect = connection.dialect\n        assert_singlerow = dialect.supports_sane_rowcount\n\n        assert_multirow = (\n            assert_singlerow\n            and dialect.supports_sane_multi_rowcount\n        )\n"),
               sub("        assert_singlerow = connection.dialect.supports_sane_rowcount\n        assert_multirow = (\n            assert_singlerow\n            and connection.dialect.supports_sane_multi_rowcount\n        )\n",
                   "        dialect = connection.dialect\n        single_ok = dialect.supports_sane_rowcount\n        assert_singlerow = single_ok\n        assert_multirow = (\n            single_ok\n            and dialect.supports_sane_multi_rowcount\n        )\n")), None)
R.mutant("extracted-rowcount-check-only-warns", PERS,
         chain(sub(_CHK, "            _verify_update_rowcount(table, len(records), rows)\n", count=2),
               sub(_HELPER_AT, "def _verify_update_rowcount(table, expected, matched):\n    if matched != expected:\n        util.warn(\"UPDATE matched %d rows, expected %d\" % (matched, expected))\n\n\n" + _HELPER_AT)), "C44-R2")
R.mutant("extracted-rowcount-check-single-record-only", PERS,
         chain(sub(_CHK, "            _verify_update_rowcount(table, len(records), rows)\n", count=2),
               sub(_HELPER_AT, _VERIFY.replace("    if matched != expected:\n", "    if expected == 1 and matched != expected:\n") + _HELPER_AT)), "C44-R6")
R.mutant("extracted-rowcount-check-depends-on-option", PERS,
         chain(sub(_CHK, "            _verify_update_rowcount(base_mapper, table, len(records), rows)\n", count=2),
               sub(_HELPER_AT, _VERIFY.replace("(table, expected, matched):", "(base_mapper, table, expected, matched):")
                   .replace("    if matched != expected:\n", "    if base_mapper.confirm_deleted_rows and matched != expected:\n") + _HELPER_AT)), "C44-R2")
# (c) the history probe of _collect_update_commands in other shapes
_PROBE = ("                for prop in mapper._columntoproperty.values():\n                    history = state.manager[prop.key].impl.get_history(\n                        state, state_dict, attributes.PASSIVE_NO_INITIALIZE\n                    )\n"
          "                    if history.added:\n                        break\n                else:\n                    # no net change, break\n                    continue\n")
_PROBE_CALL = "                if not _has_added_history_in_any_table(\n                    mapper, state, state_dict\n                ):\n                    continue\n"
_PROBE_AT = "def _collect_post_update_commands(\n"
_PROBE_HELPER = ("def _has_added_history_in_any_table(mapper, state, state_dict):\n    for prop in mapper._columntoproperty.values():\n        history = state.manager[prop.key].impl.get_history(\n"
                 "            state, state_dict, attributes.PASSIVE_NO_INITIALIZE\n        )\n        if history.added:\n            return True\n    return False\n\n\n")
R.mutant("benign-history-probe-extracted", PERS, chain(sub(_PROBE, _PROBE_CALL), sub(_PROBE_AT, _PROBE_HELPER + _PROBE_AT)), None)
R.mutant("benign-history-probe-flag", PERS,
         sub(_PROBE, "                changed = False\n                for prop in mapper._columntoproperty.values():\n                    history = state.manager[prop.key].impl.get_history(\n                        state, state_dict, attributes.PASSIVE_NO_INITIALIZE\n                    )\n"
                     "                    if history.added:\n                        changed = True\n                        break\n                if not changed:\n                    continue\n"), None)
R.mutant("benign-history-probe-any", PERS,
         sub(_PROBE, "                if not any(\n                    state.manager[prop.key].impl.get_history(\n                        state, state_dict, attributes.PASSIVE_NO_INITIALIZE\n                    ).added\n"
                     "                    for prop in mapper._columntoproperty.values()\n                ):\n                    continue\n"), None)
R.mutant("benign-history-probe-helper-returns-any", PERS,
         chain(sub(_PROBE, _PROBE_CALL),
               sub(_PROBE_AT, "def _has_added_history_in_any_table(m, st, d):\n    return any(\n        st.manager[p.key].impl.get_history(st, d, attributes.PASSIVE_NO_INITIALIZE).added\n        for p in m._columntoproperty.values()\n    )\n\n\n" + _PROBE_AT)), None)
R.mutant("benign-history-probe-negated-helper", PERS,
         chain(sub(_PROBE, "                if _no_added_history(mapper, state, state_dict):\n                    continue\n"),
               sub(_PROBE_AT, _PROBE_HELPER.replace("_has_added_history_in_any_table", "_no_added_history").replace("return True", "return None").replace("return False", "return True").replace("return None", "return False") + _PROBE_AT)), None)
R.mutant("extracted-probe-skips-when-found", PERS, chain(sub(_PROBE, _PROBE_CALL.replace("if not _has", "if _has")), sub(_PROBE_AT, _PROBE_HELPER + _PROBE_AT)), "C44-R5")
R.mutant("extracted-probe-own-table-only", PERS,
         chain(sub(_PROBE, _PROBE_CALL.replace("mapper, state, state_dict", "mapper, table, state, state_dict")),
               sub(_PROBE_AT, _PROBE_HELPER.replace("(mapper, state, state_dict)", "(mapper, table, state, state_dict)")
                   .replace("for prop in mapper._columntoproperty.values():", "for prop in [mapper._columntoproperty[c] for c in mapper._cols_by_table[table]]:") + _PROBE_AT)), "C44-R5")
R.mutant("extracted-probe-leaves-on-deleted", PERS, chain(sub(_PROBE, _PROBE_CALL), sub(_PROBE_AT, _PROBE_HELPER.replace("history.added", "history.deleted") + _PROBE_AT)), "C44-R5")
R.mutant("extracted-probe-of-base-mapper", PERS, chain(sub(_PROBE, _PROBE_CALL.replace("mapper, state, state_dict", "mapper.base_mapper, state, state_dict")), sub(_PROBE_AT, _PROBE_HELPER + _PROBE_AT)), "C44-R5")
R.mutant("flag-probe-never-set", PERS,
         sub(_PROBE, "                changed = False\n                for prop in mapper._columntoproperty.values():\n                    history = state.manager[prop.key].impl.get_history(\n                        state, state_dict, attributes.PASSIVE_NO_INITIALIZE\n                    )\n"
                     "                    if history.added:\n                        break\n                if not changed:\n                    continue\n"), "C44-R5")
R.mutant("benign-collector-version-col-renamed-val-inlined", PERS,
         chain(sub("            col = mapper.version_id_col\n            no_params = not params and not value_params\n            params[col._label] = update_version_id\n\n            if (\n                bulk or col.key not in params\n            ) and mapper.version_id_generator is not False:\n                val = mapper.version_id_generator(update_version_id)\n                params[col.key] = val\n",
                   "            version_col = mapper.version_id_col\n            no_params = not params and not value_params\n            params[version_col._label] = update_version_id\n\n            if (\n                bulk or version_col.key not in params\n            ) and mapper.version_id_generator is not False:\n                params[version_col.key] = mapper.version_id_generator(\n                    update_version_id\n                )\n"),
               sub("                # statement\n                params[col.key] = update_version_id\n", "                # statement\n                params[version_col.key] = update_version_id\n")), None)

# (d) the check / warn tail of the two UPDATE emitters in other control-flow shapes
_TAIL = ("        if check_rowcount:\n" + _CHK + "\n        elif needs_version_id:\n            util.warn(\n                \"Dialect %s does not support updated rowcount \"\n                \"- versioning cannot be verified.\"\n"
         "                % c.dialect.dialect_description\n            )\n")
_WARN = "util.warn(\n                    \"Dialect %s does not support updated rowcount \"\n                    \"- versioning cannot be verified.\"\n                    % c.dialect.dialect_description\n                )\n"
R.mutant("benign-check-tail-guard-clause", PERS,
         sub(_TAIL, "        if not check_rowcount:\n            if needs_version_id:\n                " + _WARN + "            continue\n\n        expected_rows = len(records)\n        if rows != expected_rows:\n"
                    "            raise orm_exc.StaleDataError(\n                \"UPDATE statement on table '%s' expected to \"\n                \"update %d row(s); %d were matched.\"\n                % (table.description, expected_rows, rows)\n            )\n", count=2), None)
R.mutant("benign-check-tail-merged-condition", PERS,
         sub(_TAIL, "        stale = check_rowcount and rows != len(records)\n        if stale:\n            raise orm_exc.StaleDataError(\n                \"UPDATE statement on table '%s' expected to \"\n                \"update %d row(s); %d were matched.\"\n"
                    "                % (table.description, len(records), rows)\n            )\n        if needs_version_id and not check_rowcount:\n            " + _WARN.replace("                    ", "                ").replace("                )", "            )"), count=2), None)
R.mutant("check-tail-guard-clause-skips-check-for-versioned", PERS,
         sub(_TAIL, "        if not check_rowcount or needs_version_id:\n            continue\n\n        if rows != len(records):\n"
                    "            raise orm_exc.StaleDataError(\n                \"UPDATE statement on table '%s' expected to \"\n                \"update %d row(s); %d were matched.\"\n                % (table.description, len(records), rows)\n            )\n", count=2), ("C44-R2", "C44-R6"))


# ---------------------------------------------------------------------- str2-r: round-2 seeds
# seed C44_3: the three per-branch definitions of check_rowcount "de-duplicated" into one expression before the branches
_CR_ROW1 = "                rows += c.rowcount\n                check_rowcount = enable_check_rowcount and assert_singlerow\n"
_CR_ROW2 = "            if not allow_executemany:\n                check_rowcount = enable_check_rowcount and assert_singlerow\n"
_CR_MANY = ("                check_rowcount = enable_check_rowcount and (\n                    assert_multirow\n                    or (assert_singlerow and len(multiparams) == 1)\n                )\n\n")
_CR_AT = "        allow_executemany = not return_defaults and not needs_version_id\n\n"
_CR_DROP = [sub(_CR_ROW1, "                rows += c.rowcount\n"), sub(_CR_ROW2, "            if not allow_executemany:\n"), sub(_CR_MANY, "")]
R.mutant("seed3-check-rowcount-hoisted-with-executemany-formula", PERS,
         chain(*_CR_DROP, sub(_CR_AT, _CR_AT + "        check_rowcount = enable_check_rowcount and (\n            assert_multirow or (assert_singlerow and len(records) == 1)\n        )\n\n")),
         "C44-R6")
R.mutant("check-rowcount-hoisted-executemany-formula-via-locals", PERS,
         chain(*_CR_DROP, sub(_CR_AT, _CR_AT + "        single_record = len(records) == 1\n        countable = assert_multirow or (assert_singlerow and single_record)\n        check_rowcount = enable_check_rowcount and countable\n\n")),
         "C44-R6")
# the same tidy-up done right: one definition per way of executing, chosen before the branches
R.mutant("benign-check-rowcount-hoisted-per-branch", PERS,
         chain(*_CR_DROP, sub(_CR_AT, _CR_AT + "        if hasvalue or not allow_executemany:\n            check_rowcount = enable_check_rowcount and assert_singlerow\n        else:\n"
                                               "            check_rowcount = enable_check_rowcount and (\n                assert_multirow or (assert_singlerow and len(records) == 1)\n            )\n\n")),
         None)
R.mutant("benign-check-rowcount-hoisted-row-by-row-local", PERS,
         chain(*_CR_DROP, sub(_CR_AT, _CR_AT + "        row_by_row = hasvalue or not allow_executemany\n        check_rowcount = enable_check_rowcount and (\n            assert_multirow\n"
                                               "            or (assert_singlerow and (row_by_row or len(records) == 1))\n        )\n\n")),
         None)

# seed C44_4: the immediate re-read of a server-generated version restricted to INSERTs
_VER_RELOAD = ("        if (\n            mapper.version_id_col is not None\n            and mapper.version_id_generator is False\n        ):\n"
               "            if mapper._version_id_prop.key in state.unloaded:\n                toload_now.extend([mapper._version_id_prop.key])\n")
_FINAL_AT = "def _finalize_insert_update_commands(base_mapper, uowtransaction, states):\n"
R.mutant("seed4-version-reload-only-after-insert", PERS,
         sub(_VER_RELOAD, _VER_RELOAD.replace("            and mapper.version_id_generator is False\n", "            and mapper.version_id_generator is False\n            and not has_identity\n")), "C44-R7")
R.mutant("version-reload-skipped-by-option", PERS,
         sub(_VER_RELOAD, _VER_RELOAD.replace("            if mapper._version_id_prop.key in state.unloaded:\n", "            if (\n                mapper._version_id_prop.key in state.unloaded\n                and base_mapper.eager_defaults is not False\n            ):\n")), "C44-R7")
R.mutant("version-reload-never-scheduled", PERS, sub(_VER_RELOAD, ""), "C44-R7")
R.mutant("version-reload-not-performed-for-updates", PERS,
         sub("        if toload_now:\n            identity_key = base_mapper._identity_key_from_state(state)\n", "        if toload_now and not has_identity:\n            identity_key = base_mapper._identity_key_from_state(state)\n"), "C44-R7")
R.mutant("version-reload-predicate-helper-insert-only", PERS,
         chain(sub(_VER_RELOAD, "        if _version_needs_reload(mapper, state, has_identity):\n            toload_now.extend([mapper._version_id_prop.key])\n"),
               sub(_FINAL_AT, "def _version_needs_reload(mapper, state, has_identity):\n    return (\n        mapper.version_id_col is not None\n        and mapper.version_id_generator is False\n        and not has_identity\n"
                              "        and mapper._version_id_prop.key in state.unloaded\n    )\n\n\n" + _FINAL_AT)), "C44-R7")
R.mutant("benign-version-reload-merged-condition-append", PERS,
         sub(_VER_RELOAD, "        server_versioned = (\n            mapper.version_id_col is not None\n            and mapper.version_id_generator is False\n        )\n"
                          "        if server_versioned and mapper._version_id_prop.key in state.unloaded:\n            toload_now.append(mapper._version_id_prop.key)\n"), None)
R.mutant("benign-version-reload-inverted-alias-augassign", PERS,
         sub(_VER_RELOAD, "        if (\n            mapper.version_id_col is None\n            or mapper.version_id_generator is not False\n        ):\n            pass\n        else:\n"
                          "            version_key = mapper._version_id_prop.key\n            if version_key in state.unloaded:\n                toload_now += [version_key]\n"), None)
R.mutant("benign-version-reload-predicate-helper", PERS,
         chain(sub(_VER_RELOAD, "        if _version_needs_reload(mapper, state):\n            toload_now.extend([mapper._version_id_prop.key])\n"),
               sub(_FINAL_AT, "def _version_needs_reload(mapper, state):\n    return (\n        mapper.version_id_col is not None\n        and mapper.version_id_generator is False\n"
                              "        and mapper._version_id_prop.key in state.unloaded\n    )\n\n\n" + _FINAL_AT)), None)
R.mutant("benign-version-reload-loader-extracted", PERS,
         chain(sub("        if toload_now:\n            identity_key = base_mapper._identity_key_from_state(state)\n            if state.key is None:\n                state.key = identity_key\n            stmt = sql.select(mapper)\n"
                   "            loading._load_on_ident(\n                uowtransaction.session,\n                stmt,\n                identity_key,\n                refresh_state=state,\n                only_load_props=toload_now,\n            )\n",
                   "        if toload_now:\n            _load_now(base_mapper, uowtransaction, mapper, state, toload_now)\n"),
               sub(_FINAL_AT, "def _load_now(base_mapper, uowtransaction, mapper, state, keys):\n    identity_key = base_mapper._identity_key_from_state(state)\n    if state.key is None:\n        state.key = identity_key\n"
                              "    stmt = sql.select(mapper)\n    loading._load_on_ident(\n        uowtransaction.session,\n        stmt,\n        identity_key,\n        refresh_state=state,\n        only_load_props=keys,\n    )\n\n\n" + _FINAL_AT)), None)
