"""C55 -- Compiled and pure-Python implementations are interchangeable (branch/name agreement, thin)."""

from __future__ import annotations

import ast

from ..astutil import call_name, calls_in, dotted, own_exprs, unparse, walk_local
from ..report import Registry, sub
from ._helpers_rules_b import ordinal_keys

R = Registry(
    "C55",
    title="Compiled and pure-Python implementations are interchangeable",
    decides=(
        "for every `if cython.compiled:` / `else:` in the seven *_cy.py modules: a name bound in one arm only is used "
        "only under a guard of the same polarity (or is a special method / a __slots__ member), locals bound in one arm "
        "are not read after the branch, functions defined in both arms have the same parameters; "
        "_has_cython._all_cython_modules() lists exactly the *_cy.py modules of the tree, each defines _is_compiled() "
        "returning cython.compiled, every name imported from a *_cy module anywhere in the package is defined there in "
        "both build modes; C-integer typed locals only receive len()/id()/literal/range/C-typed values, C-integer typed "
        "parameters of Python-visible callables reach a builtin that performs the same conversion on every path, "
        "`-> cython.bint` callables return boolean expressions (exceptions listed with reasons)."
    ),
    not_decided=(
        "behavioural equality of the two builds; whether the shipped .so files were built from the current source "
        "(Cython is not installed; neither recompilation nor staleness can be decided here)."
    ),
)

CY_INT = {"Py_hash_t", "int", "uint", "long", "ulong", "longlong", "ulonglong", "Py_ssize_t", "size_t", "short", "ushort", "char", "uchar"}

# construct key -> reason (confirmed by reading)
R3_EXCEPTIONS = {
    "engine/_util_cy.py::_is_contiguous:prev": "elements of a tuple of column positions (bounded by the row length); cfunc, not reachable with user integers",
    "engine/_util_cy.py::_is_contiguous:curr": "elements of a tuple of column positions (bounded by the row length); cfunc, not reachable with user integers",
    "sql/_util_cy.py::anon_map._index": "per-statement counter of anonymous keys; one map per cache-key / compile run, far below 2**32",
}
# builtins performing the same C integer conversion on their argument in CPython: (callee suffix, arg index)
SAME_CONVERSION = {("insert", 0), ("range", 0), ("range", 1), ("pop", 0)}


def _is_compiled_test(test):
    """True for `cython.compiled`, False for `not cython.compiled`, None otherwise."""
    neg = False
    if isinstance(test, ast.UnaryOp) and isinstance(test.op, ast.Not):
        neg, test = True, test.operand
    if dotted(test) == "cython.compiled":
        return not neg
    return None


def _cy_modules(ctx):
    mods = [m for m in ctx.index.all_modules() if m.relpath.endswith("_cy.py")]
    ctx.require(mods, "no *_cy.py module found")
    return sorted(mods, key=lambda m: m.relpath)


def _bound_top(stmts):
    """{name: node} bound by the statements of one arm at the arm's own level (defs, assignments, imports,
    annotated declarations), not descending into nested function bodies."""
    out = {}
    for st in stmts:
        if isinstance(st, (ast.FunctionDef, ast.AsyncFunctionDef, ast.ClassDef)):
            out[st.name] = st
        elif isinstance(st, ast.Assign):
            for t in st.targets:
                for n in ast.walk(t):
                    if isinstance(n, ast.Name) and isinstance(n.ctx, ast.Store):
                        out[n.id] = st
        elif isinstance(st, (ast.AnnAssign, ast.AugAssign)) and isinstance(st.target, ast.Name):
            out[st.target.id] = st
        elif isinstance(st, (ast.Import, ast.ImportFrom)):
            for a in st.names:
                out[(a.asname or a.name).split(".")[0]] = st
        elif isinstance(st, (ast.For, ast.While, ast.With, ast.If, ast.Try)):
            for fld in ("body", "orelse", "finalbody"):
                out.update(_bound_top(getattr(st, fld, []) or []))
            if isinstance(st, ast.For):
                for n in ast.walk(st.target):
                    if isinstance(n, ast.Name):
                        out[n.id] = st
    return out


def _polarity_guard(pm, node, stop=None):
    """Polarity of the innermost enclosing `if cython.compiled:` arm (crossing nested function and
    class boundaries: a def inside a compiled-only arm exists only in the compiled build), else the
    polarity of an enclosing conditional expression; None when unguarded."""
    child = node
    cur = pm.get(node)
    while cur is not None and cur is not stop:
        if isinstance(cur, ast.If):
            c = _is_compiled_test(cur.test)
            if c is not None:
                if any(child is x for x in cur.body):
                    return c
                if any(child is x for x in cur.orelse):
                    return not c
        elif isinstance(cur, ast.IfExp):
            c = _is_compiled_test(cur.test)
            if c is not None:
                if child is cur.body:
                    return c
                if child is cur.orelse:
                    return not c
        child = cur
        cur = pm.get(cur)
    return None


def _sites(m):
    pm = m.parents()
    out = []
    for n in ast.walk(m.tree):
        if isinstance(n, ast.If) and _is_compiled_test(n.test) is not None:
            par = pm.get(n)
            while par is not None and not isinstance(par, (ast.Module, ast.ClassDef, ast.FunctionDef, ast.AsyncFunctionDef)):
                par = pm.get(par)
            out.append((n, par))
    out.sort(key=lambda x: x[0].lineno)
    return out


def _qual(pm, node):
    names = []
    cur = node
    while cur is not None:
        if isinstance(cur, (ast.ClassDef, ast.FunctionDef, ast.AsyncFunctionDef)):
            names.append(cur.name)
        cur = pm.get(cur)
    return ".".join(reversed(names))


def _sig(fn):
    a = fn.args
    return ([x.arg for x in a.posonlyargs], [x.arg for x in a.args], a.vararg.arg if a.vararg else None,
            [x.arg for x in a.kwonlyargs], a.kwarg.arg if a.kwarg else None, len(a.defaults))


@R.rule("C55-R1", floor=15, template="T-SIBLING",
        desc="every `if cython.compiled:` site: one-arm-only names are used only under the same polarity (or are "
             "special methods / __slots__ members), one-arm-only locals are not read after the branch, functions "
             "defined in both arms have identical parameters")
def r1(ctx):
    for m in _cy_modules(ctx):
        pm = m.parents()
        sites = _sites(m)
        keyed = ordinal_keys(sites, lambda s: f"{m.relpath}::{_qual(pm, s[0]) or '<module>'}:cython.compiled")
        for key, (site, scope) in keyed:
            comp_first = _is_compiled_test(site.test)
            arms = {comp_first: site.body, (not comp_first): site.orelse}
            bound = {pol: _bound_top(arms[pol]) for pol in (True, False)}
            problems = []
            loc = f"{m.path}:{site.lineno}"
            # functions in both arms: same parameters
            for nm in set(bound[True]) & set(bound[False]):
                a, b = bound[True][nm], bound[False][nm]
                if isinstance(a, ast.FunctionDef) and isinstance(b, ast.FunctionDef) and _sig(a) != _sig(b):
                    problems.append(f"`{nm}` has parameters {_sig(a)[:2]} when compiled but {_sig(b)[:2]} in pure Python")
                if isinstance(a, ast.FunctionDef) != isinstance(b, ast.FunctionDef) and not (
                        isinstance(a, (ast.Import, ast.ImportFrom)) or isinstance(b, (ast.Import, ast.ImportFrom))
                        or isinstance(a, ast.Assign) or isinstance(b, ast.Assign)):
                    problems.append(f"`{nm}` is a function in one build and not in the other")
            # one-arm-only names
            for pol in (True, False):
                only = set(bound[pol]) - set(bound[not pol])
                for nm in sorted(only):
                    mode = "compiled" if pol else "pure Python"
                    other = "pure Python" if pol else "compiled"
                    if isinstance(scope, ast.ClassDef):
                        if nm.startswith("__") and nm.endswith("__"):
                            ctx.note(f"{key}: special method/attribute {nm} exists only in the {mode} build")
                            continue
                        slots = set()
                        for st in scope.body:
                            if isinstance(st, ast.Assign) and any(isinstance(t, ast.Name) and t.id == "__slots__" for t in st.targets):
                                slots |= {e.value for e in ast.walk(st.value) if isinstance(e, ast.Constant) and isinstance(e.value, str)}
                        also = any(nm in _bound_top([st]) for st in scope.body if st is not site)
                        if nm in slots or also:
                            continue
                        uses = [n for n in ast.walk(scope) if isinstance(n, ast.Attribute) and n.attr == nm and isinstance(n.value, ast.Name)
                                and n.value.id in ("self", "cls")]
                    elif isinstance(scope, ast.Module):
                        also = any(nm in _bound_top([st]) for st in scope.body if st is not site
                                   and not (isinstance(st, ast.If) and _is_compiled_test(st.test) is not None))
                        if also:
                            continue
                        uses = [n for n in ast.walk(m.tree) if isinstance(n, ast.Name) and n.id == nm and isinstance(n.ctx, ast.Load)]
                    else:  # function level: reads after the branch
                        uses = [n for n in ast.walk(scope) if isinstance(n, ast.Name) and n.id == nm and isinstance(n.ctx, ast.Load)
                                and not any(x is n for x in ast.walk(site))]
                        # only reads that can follow the branch matter
                        uses = [n for n in uses if n.lineno > site.end_lineno or _encloses_loop(pm, site, n)]
                    bad = []
                    for u in uses:
                        if any(x is u for arm in (arms[pol],) for st in arm for x in ast.walk(st)):
                            continue  # inside its own arm
                        if _polarity_guard(pm, u) == pol:
                            continue
                        bad.append(u.lineno)
                    if bad:
                        problems.append(f"`{nm}` is bound only in the {mode} arm but read where the {other} build also runs (line(s) {sorted(set(bad))})")
            ctx.check(not problems, key, "; ".join(problems),
                      f"compiled arm binds {sorted(bound[True])}, pure arm binds {sorted(bound[False])}", loc)


def _encloses_loop(pm, site, node):
    """Is `node` inside a loop that also contains `site` (so it can execute after the branch)?"""
    cur = pm.get(site)
    while cur is not None and not isinstance(cur, (ast.FunctionDef, ast.AsyncFunctionDef, ast.Module)):
        if isinstance(cur, (ast.For, ast.While)) and any(x is node for x in ast.walk(cur)):
            return True
        cur = pm.get(cur)
    return False


def _defined_both_modes(m):
    """Module-level names defined whichever way `cython.compiled` evaluates."""
    out = set()
    for st in m.tree.body:
        if isinstance(st, ast.If) and _is_compiled_test(st.test) is not None:
            out |= set(_bound_top(st.body)) & set(_bound_top(st.orelse))
        elif isinstance(st, ast.Try):
            # `try: import cython / except: from sqlalchemy.util import cython`
            b = set(_bound_top(st.body))
            for h in st.handlers:
                b &= set(_bound_top(h.body))
            out |= b
        else:
            out |= set(_bound_top([st]))
    return out


@R.rule("C55-R2", floor=22, template="T-TABLE",
        desc="_all_cython_modules() == the *_cy.py modules of the tree; each defines _is_compiled() -> cython.compiled; "
             "every name imported from a *_cy module in the package is defined there in both build modes")
def r2(ctx):
    ix = ctx.index
    mods = _cy_modules(ctx)
    f = ctx.func("util/_has_cython.py::_all_cython_modules")
    listed = {}
    for st in walk_local(f.node):
        if isinstance(st, ast.ImportFrom):
            absmod = ix._abs_module(f.module, st.level, st.module)
            for a in st.names:
                listed[a.asname or a.name] = absmod + "." + a.name
    rets = [r for r in walk_local(f.node) if isinstance(r, ast.Return) and isinstance(r.value, ast.Tuple)]
    ctx.require(len(rets) == 1, "_all_cython_modules does not return a tuple")
    returned = {listed.get(e.id) for e in rets[0].value.elts if isinstance(e, ast.Name)}
    tree = {m.name for m in mods}
    ctx.check(returned == tree, f"{f.key}:table",
              f"_all_cython_modules() returns {sorted(x for x in returned if x)} but the tree has {sorted(tree)} "
              f"(missing {sorted(tree - returned)}, stale {sorted(x for x in returned - tree if x)}): HAS_CYEXTENSION / test gating "
              f"would not see a module that fell back to pure Python",
              f"{len(tree)} modules listed", f.loc)
    for m in mods:
        fn = m.functions.get("_is_compiled")
        ok = fn is not None and any(isinstance(r, ast.Return) and r.value is not None and dotted(r.value) == "cython.compiled" for r in walk_local(fn.node))
        ctx.check(ok, f"{m.relpath}::_is_compiled", "does not define _is_compiled() returning cython.compiled",
                  "returns cython.compiled", m.path, nontrivial=False)
    # importers
    defined = {m.name: _defined_both_modes(m) for m in mods}
    per_mod = {m.name: [] for m in mods}
    for im in ix.all_modules():
        if "_cy" not in im.source:
            continue
        for node in ast.walk(im.tree):
            if isinstance(node, ast.ImportFrom):
                absmod = ix._abs_module(im, node.level, node.module)
                if absmod in defined:
                    for a in node.names:
                        per_mod[absmod].append((im, a.name, node.lineno))
    for m in mods:
        uses = per_mod[m.name]
        bad = [f"{im.relpath}:{ln} {nm}" for im, nm, ln in uses if nm != "*" and nm not in defined[m.name]]
        ctx.check(not bad, f"{m.relpath}:imported-names",
                  f"names imported from {m.relpath} that it does not define in both build modes: {bad}",
                  f"{len(uses)} imported name(s), all defined in both modes", m.path)
        ctx.require(uses or m.relpath.endswith("_cy.py"), "")
    total = sum(len(v) for v in per_mod.values())
    ctx.require(total >= 10, f"only {total} imports from *_cy modules found (import scan went blind)")
    # cython shim: every `cython.<name>` used by the modules exists in util/cython.py (pure-mode fallback)
    shim = ix.module("util/cython.py")
    shim_names = set(shim.functions) | set(shim.classes) | set(shim.assigns)
    for m in mods:
        used = sorted({n.attr for n in ast.walk(m.tree) if isinstance(n, ast.Attribute) and isinstance(n.value, ast.Name) and n.value.id == "cython"})
        pm = m.parents()
        missing = []
        for n in ast.walk(m.tree):
            if isinstance(n, ast.Attribute) and isinstance(n.value, ast.Name) and n.value.id == "cython" and n.attr not in shim_names:
                if _polarity_guard(pm, n) is True or n.attr == "cimports":
                    continue
                missing.append(f"cython.{n.attr} (line {n.lineno})")
        ctx.check(not missing, f"{m.relpath}:cython-shim",
                  f"uses {sorted(set(missing))} which the pure-Python shim util/cython.py does not provide (AttributeError without Cython)",
                  f"{len(used)} cython.* names, all provided by the shim", m.path)


def _ctype(ann):
    """'Py_ssize_t' for an annotation `cython.Py_ssize_t`; None otherwise."""
    d = dotted(ann) if ann is not None else None
    if d and d.startswith("cython.") and d.split(".", 1)[1] in CY_INT:
        return d.split(".", 1)[1]
    return None


def _python_visible(fn) -> bool:
    decos = [unparse(d.func if isinstance(d, ast.Call) else d) for d in fn.decorator_list]
    return "cython.cfunc" not in decos


def _c_int_names(fn):
    """{name: ctype} for parameters and locals of `fn` declared with a C integer type
    (annotations and @cython.locals)."""
    out = {}
    a = fn.args
    for x in a.posonlyargs + a.args + a.kwonlyargs:
        t = _ctype(x.annotation)
        if t:
            out[x.arg] = t
    for n in walk_local(fn):
        if isinstance(n, ast.AnnAssign) and isinstance(n.target, ast.Name):
            t = _ctype(n.annotation)
            if t:
                out[n.target.id] = t
    for d in fn.decorator_list:
        if isinstance(d, ast.Call) and unparse(d.func) == "cython.locals":
            for k in d.keywords:
                t = _ctype(k.value)
                if t and k.arg:
                    out[k.arg] = t
    return out


def _safe_source(e, cnames, consts, depth=0):
    """Is `e` an integer that fits the C type by construction?"""
    if depth > 5:
        return False
    if isinstance(e, ast.Constant) and isinstance(e.value, int):
        return True
    if isinstance(e, ast.Name):
        return e.id in cnames or e.id in consts
    if isinstance(e, ast.Call):
        nm = call_name(e) or ""
        if nm in ("len", "id", "_get_id", "PyList_GET_SIZE", "PyTuple_GET_SIZE"):
            return True
        if nm == "cython.cast" and e.args and _ctype(e.args[0]):
            return True
        return False
    if isinstance(e, ast.BinOp) and isinstance(e.op, (ast.Add, ast.Sub, ast.FloorDiv, ast.Mod)):
        return _safe_source(e.left, cnames, consts, depth + 1) and _safe_source(e.right, cnames, consts, depth + 1)
    if isinstance(e, ast.IfExp):
        return _safe_source(e.body, cnames, consts, depth + 1) and _safe_source(e.orelse, cnames, consts, depth + 1)
    if isinstance(e, ast.Attribute) and isinstance(e.value, ast.Name) and e.value.id == "self":
        return e.attr in cnames
    return False


def _boolean_expr(e, bint_funcs) -> bool:
    if isinstance(e, ast.Constant) and isinstance(e.value, bool):
        return True
    if isinstance(e, ast.Compare):
        return True
    if isinstance(e, ast.UnaryOp) and isinstance(e.op, ast.Not):
        return True
    if isinstance(e, ast.BoolOp):
        return all(_boolean_expr(v, bint_funcs) for v in e.values)
    if isinstance(e, ast.Call):
        nm = (call_name(e) or "").rsplit(".", 1)[-1]
        return nm in ("isinstance", "issubclass", "hasattr", "bool", "callable") or nm in bint_funcs
    return False


@R.rule("C55-R3", floor=22, template="T-FLOW",
        desc="C integer narrowing: typed locals only receive len()/id()/literal/range/C-typed values; typed parameters "
             "of Python-visible callables reach a builtin doing the same conversion on every path; `-> cython.bint` "
             "callables return boolean expressions")
def r3(ctx):
    for m in _cy_modules(ctx):
        pm = m.parents()
        consts = set()
        for st in m.tree.body:
            if isinstance(st, ast.Assign) and isinstance(st.value, ast.Call) and call_name(st.value) == "cython.declare" \
                    and st.value.args and _ctype(st.value.args[0]):
                consts |= {t.id for t in st.targets if isinstance(t, ast.Name)}
        funcs = [n for n in ast.walk(m.tree) if isinstance(n, (ast.FunctionDef, ast.AsyncFunctionDef))]
        bint_funcs = {fn.name for fn in funcs if fn.returns is not None and dotted(fn.returns) == "cython.bint"}
        # class-level C-typed attributes
        for cls in [n for n in ast.walk(m.tree) if isinstance(n, ast.ClassDef)]:
            for st in ast.walk(cls):
                if isinstance(st, ast.AnnAssign) and isinstance(st.target, ast.Name) and _ctype(st.annotation) and pm.get(st) is not None \
                        and not isinstance(_enclosing_func(pm, st), (ast.FunctionDef, ast.AsyncFunctionDef)):
                    key = f"{m.relpath}::{_qual(pm, cls)}.{st.target.id}"
                    if key in R3_EXCEPTIONS:
                        ctx.ok(key, "exempt: " + R3_EXCEPTIONS[key], nontrivial=False)
                    else:
                        ctx.violation(key, f"attribute `{st.target.id}: cython.{_ctype(st.annotation)}` is a fixed-width C integer only in the "
                                           f"compiled build (wraps / overflows there, unbounded in pure Python)", f"{m.path}:{st.lineno}")
        for fn in sorted(funcs, key=lambda f: f.lineno):
            q = _qual(pm, fn)
            pol = _polarity_guard(pm, fn)
            ctx.functions_analysed.add(f"{m.relpath}::{q}")
            cn = _c_int_names(fn)
            params = {x.arg for x in fn.args.posonlyargs + fn.args.args + fn.args.kwonlyargs}
            visible = _python_visible(fn) and pol is not True
            for nm, ct in sorted(cn.items()):
                key = f"{m.relpath}::{q}:{nm}"
                loc = f"{m.path}:{fn.lineno}"
                if key in R3_EXCEPTIONS:
                    ctx.ok(key, "exempt: " + R3_EXCEPTIONS[key], nontrivial=False)
                    continue
                if nm in params:
                    if not visible:
                        ctx.ok(key, f"cython.{ct} parameter of a C-only function (callers are compiled code)", nontrivial=False)
                        continue
                    # every path from entry must hand the parameter to a same-converting builtin before any other use
                    g = ctx.cfg(fn)
                    conv = []
                    for node in g.nodes:
                        if node.stmt is None or not isinstance(node.stmt, ast.stmt) or node.kind not in ("stmt", "test", "for"):
                            continue
                        for part in own_exprs(node.stmt):
                            for c in calls_in(part):
                                suffix = (call_name(c) or "").rsplit(".", 1)[-1]
                                for i, a in enumerate(c.args):
                                    if isinstance(a, ast.Name) and a.id == nm and (suffix, i) in SAME_CONVERSION:
                                        conv.append(node.id)
                    w = g.must_pass([g.entry], [g.exit], conv, edge_ok=lambda a, b, l: l != "exc") if conv else ["no use of the parameter converts it the same way in CPython"]
                    ctx.check(w is None, key,
                              f"parameter `{nm}: cython.{ct}` of Python-visible `{q}` is converted to a C integer at call time only in the "
                              f"compiled build (TypeError for non-integers such as slices, OverflowError beyond the C range); the pure-Python "
                              f"build accepts the call on a path that never converts it",
                              f"`{nm}` reaches a same-converting builtin on every path", loc, w)
                else:
                    srcs = []
                    for n in walk_local(fn):
                        if isinstance(n, ast.Assign) and any(isinstance(t, ast.Name) and t.id == nm for t in n.targets):
                            srcs.append(n.value)
                        elif isinstance(n, ast.AnnAssign) and isinstance(n.target, ast.Name) and n.target.id == nm and n.value is not None:
                            srcs.append(n.value)
                        elif isinstance(n, ast.AugAssign) and isinstance(n.target, ast.Name) and n.target.id == nm:
                            srcs.append(n.value)
                        elif isinstance(n, ast.For) and isinstance(n.target, ast.Name) and n.target.id == nm:
                            it = n.iter
                            if isinstance(it, ast.Call) and call_name(it) == "range":
                                srcs.extend(it.args)
                            else:
                                srcs.append(it)
                    bad = [unparse(s)[:40] for s in srcs if not _safe_source(s, set(cn), consts)]
                    ctx.check(not bad, key,
                              f"local `{nm}: cython.{ct}` receives {bad}: an arbitrary Python integer is narrowed to a C integer only in "
                              f"the compiled build (OverflowError / wrap-around there, exact in pure Python)",
                              f"{len(srcs)} assignment(s) from len()/id()/literals/range/C-typed values", loc)
            # -> cython.bint on Python-visible callables
            if fn.returns is not None and dotted(fn.returns) == "cython.bint" and visible:
                rets = [r for r in walk_local(fn) if isinstance(r, ast.Return) and r.value is not None]
                bad = [unparse(r.value)[:50] for r in rets if not _boolean_expr(r.value, bint_funcs)]
                ctx.check(not bad and rets, f"{m.relpath}::{q}:return-bint",
                          f"`{q}` -> cython.bint returns {bad}: the compiled build coerces to bool, the pure-Python build returns the object itself",
                          f"{len(rets)} return(s), all boolean expressions", f"{m.path}:{fn.lineno}")


def _enclosing_func(pm, node):
    cur = pm.get(node)
    while cur is not None and not isinstance(cur, (ast.FunctionDef, ast.AsyncFunctionDef, ast.ClassDef, ast.Module)):
        cur = pm.get(cur)
    return cur


# ---------------------------------------------------------------------- self-test battery
IMM = "util/_immutabledict_cy.py"
COLL = "util/_collections_cy.py"
SQLU = "sql/_util_cy.py"
RES = "engine/_result_cy.py"
ROW = "engine/_row_cy.py"
EUT = "engine/_util_cy.py"

R.mutant("pure-arm-loses-fallback", IMM,
         sub("if cython.compiled:\n    from cython.cimports.cpython.dict import PyDict_Update\nelse:\n    PyDict_Update = dict.update\n",
             "if cython.compiled:\n    from cython.cimports.cpython.dict import PyDict_Update\nelse:\n    _PyDict_Update = dict.update\n"), "C55-R1")
R.mutant("get-id-only-when-compiled", SQLU,
         sub("if cython.compiled:\n    from cython.cimports.sqlalchemy.util._collections_cy import _get_id\nelse:\n    _get_id = id\n",
             "if cython.compiled:\n    from cython.cimports.sqlalchemy.util._collections_cy import _get_id\n"), "C55-R1")
R.mutant("apply-processors-signature-drift", RES,
         sub("        proc: _ProcessorsType,\n        proc_size: int,  # used only by cython impl\n        proc_valid: tuple[int, ...],\n        data: Sequence[Any],",
             "        proc: _ProcessorsType,\n        proc_valid: tuple[int, ...],\n        proc_size: int,  # used only by cython impl\n        data: Sequence[Any],"), "C55-R1")
R.mutant("local-only-in-compiled-arm-read-later", COLL,
         sub("    if cython.compiled:\n        seen: Set[_T] = set()\n        return [x for x in seq if x not in seen and not set.add(seen, x)]\n    else:\n        return list(dict.fromkeys(seq))\n",
             "    if cython.compiled:\n        seen: Set[_T] = set()\n        res = [x for x in seq if x not in seen and not set.add(seen, x)]\n    else:\n        res = list(dict.fromkeys(seq))\n    _n = len(seen)\n    return res\n"), "C55-R1")
R.mutant("cython-module-not-listed", "util/_has_cython.py",
         sub("        _row_cy,\n        engine_util,", "        engine_util,"), "C55-R2")
R.mutant("is-compiled-constant", ROW,
         sub("    return cython.compiled  # type: ignore[no-any-return,unused-ignore]", "    return True"), "C55-R2")
R.mutant("wrapper-imports-missing-name", "engine/processors.py",
         sub("from ._processors_cy import to_str as to_str  # noqa: F401", "from ._processors_cy import to_string as to_str  # noqa: F401"), "C55-R2")
R.mutant("helper-defined-only-compiled-used-unguarded", COLL,
         sub("else:\n    _get_id = id\n\n\n@cython.cclass\nclass IdentitySet:", "\n\n@cython.cclass\nclass IdentitySet:"), "C55-R1")
R.mutant("name-defined-only-compiled-but-imported", "engine/_processors_cy.py",
         sub("@cython.annotation_typing(False)\ndef to_str(value: Any) -> Optional[str]:\n    if value is None:\n        return None\n    return str(value)\n",
             "if cython.compiled:\n\n    @cython.annotation_typing(False)\n    def to_str(value: Any) -> Optional[str]:\n        if value is None:\n            return None\n        return str(value)\n"), "C55-R2")
R.mutant("local-narrowed-from-element", EUT,
         sub("def tuplegetter(*indexes: int) -> _TupleGetterType:\n    max_index: int\n", "def tuplegetter(*indexes: int) -> _TupleGetterType:\n    max_index: cython.Py_ssize_t\n"), "C55-R3")
R.mutant("proc-size-from-argument", RES,
         sub("        proc_size: cython.Py_ssize_t = len(processors)", "        proc_size: cython.Py_ssize_t = processors[0]"), "C55-R3")
R.mutant("bint-returns-object", COLL,
         sub("        return self._members.keys() <= other._members.keys()", "        return other._members or self._members"), "C55-R3")
R.mutant("new-ctyped-public-param", COLL,
         sub("    def discard(self, element: _T, /) -> None:\n        if element in self:\n            set.remove(self, element)\n            self._list.remove(element)",
             "    def discard(self, element: _T, /, count: cython.int = 1) -> None:\n        if element in self:\n            set.remove(self, element)\n            self._list.remove(element)"), "C55-R3")
# benign
R.mutant("benign-swap-arms", IMM,
         sub("if cython.compiled:\n    from cython.cimports.cpython.dict import PyDict_Update\nelse:\n    PyDict_Update = dict.update\n",
             "if not cython.compiled:\n    PyDict_Update = dict.update\nelse:\n    from cython.cimports.cpython.dict import PyDict_Update\n"), None)
R.mutant("benign-rename-loop-index", EUT,
         sub("    i: cython.Py_ssize_t\n    prev: cython.Py_ssize_t\n    curr: cython.Py_ssize_t\n    for i in range(1, len(indexes)):\n        prev = indexes[i - 1]\n        curr = indexes[i]\n",
             "    pos: cython.Py_ssize_t\n    prev: cython.Py_ssize_t\n    curr: cython.Py_ssize_t\n    for pos in range(1, len(indexes)):\n        prev = indexes[pos - 1]\n        curr = indexes[pos]\n"), None)
R.mutant("benign-extra-helper-both-arms", SQLU,
         sub("if cython.compiled:\n    from cython.cimports.sqlalchemy.util._collections_cy import _get_id\nelse:\n    _get_id = id\n",
             "if cython.compiled:\n    from cython.cimports.sqlalchemy.util._collections_cy import _get_id\n\n    _MODE = 1\nelse:\n    _get_id = id\n    _MODE = 0\n"), None)
