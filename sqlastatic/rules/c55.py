"""C55 -- Compiled and pure-Python implementations are interchangeable (branch/name agreement, thin)."""

from __future__ import annotations

import ast

from ..astutil import ancestors, call_name, calls_in, dotted, own_exprs, unparse, walk_local
from ..report import Registry, sub
from ._helpers_rules_b import ordinal_keys
from ._helpers_str_v import (
    _block_of, _is_empty_literal, bind_call, filter_atoms, fmt_atoms, loop_as_comprehension, resolve_name, root_base, shape_of,
)
from ._helpers_str2_x import LookupVariant, dict_facts

R = Registry(
    "C55",
    title="Compiled and pure-Python implementations are interchangeable",
    decides=(
        "for every `if cython.compiled:` / `else:` in the seven *_cy.py modules: a name bound in one arm only is used "
        "only under a guard of the same polarity (or is a special method / a __slots__ member), locals bound in one arm "
        "are not read after the branch, functions defined in both arms have the same parameters; "
        "_has_cython._all_cython_modules() lists exactly the *_cy.py modules of the tree, each defines _is_compiled() "
        "returning cython.compiled, every name imported from a *_cy module anywhere in the package is defined there in "
        "both build modes; C-integer typed locals only receive len()/id()/literal/range/C-typed values, C-integer typed "
        "parameters of Python-visible callables reach a builtin that performs the same conversion on every path, "
        "`-> cython.bint` callables return boolean expressions (exceptions listed with reasons); for every function that "
        "exists in two build variants (two defs in the arms of one `if cython.compiled:`, or a body branching on it) a "
        "feature vector of the two variants agrees: container kind of the returned values and whether a PARAMETER ITSELF "
        "may be returned, stores into / mutator calls on parameters (with the stored value), raised exception names and "
        "asserted parameters, every application of a non-builtin callable (callee, arguments, guard atoms that depend on "
        "the passed values, other guard atoms and loop domain), which parameters have every element hashed on every "
        "returning path; where a variant iterates an arm-private parameter (read by that variant only) the comparison is "
        "made per call site after substituting how the caller computes it (len(V) / indexes of V where <filter>)."
    ),
    not_decided=(
        "behavioural equality of the two builds beyond the feature vector (arithmetic, order of application, positions "
        "written, equivalence of a compiled-only special method such as BaseRow.__getattribute__ / anon_map.__getitem__ "
        "with the pure-Python fallback); helpers called by one variant only are not followed (analysis error, not a "
        "verdict); whether the shipped .so files were built from the current source "
        "(Cython is not installed; neither recompilation nor staleness can be decided here)."
    ),
)

CY_INT = {"Py_hash_t", "int", "uint", "long", "ulong", "longlong", "ulonglong", "Py_ssize_t", "size_t", "short", "ushort", "char", "uchar"}

# construct key -> reason (confirmed by reading)
R3_EXCEPTIONS = {
    "engine/_util_cy.py::_is_contiguous:prev": "elements of a tuple of column positions (bounded by the row length); cfunc, not reachable with user integers",
    "engine/_util_cy.py::_is_contiguous:curr": "elements of a tuple of column positions (bounded by the row length); cfunc, not reachable with user integers",
    "sql/_util_cy.py::anon_map._index": "per-statement counter of anonymous keys; one map per cache-key / compile run, far below 2**32",
}
# builtins performing the same C integer conversion on their argument in CPython: (callee suffix, arg index)
SAME_CONVERSION = {("insert", 0), ("range", 0), ("range", 1), ("pop", 0)}


def _is_compiled_test(test):
    """True for `cython.compiled`, False for `not cython.compiled`, None otherwise."""
    neg = False
    if isinstance(test, ast.UnaryOp) and isinstance(test.op, ast.Not):
        neg, test = True, test.operand
    if dotted(test) == "cython.compiled":
        return not neg
    return None


def _cy_modules(ctx):
    mods = [m for m in ctx.index.all_modules() if m.relpath.endswith("_cy.py")]
    ctx.require(mods, "no *_cy.py module found")
    return sorted(mods, key=lambda m: m.relpath)


def _bound_top(stmts):
    """{name: node} bound by the statements of one arm at the arm's own level (defs, assignments, imports,
    annotated declarations), not descending into nested function bodies."""
    out = {}
    for st in stmts:
        if isinstance(st, (ast.FunctionDef, ast.AsyncFunctionDef, ast.ClassDef)):
            out[st.name] = st
        elif isinstance(st, ast.Assign):
            for t in st.targets:
                for n in ast.walk(t):
                    if isinstance(n, ast.Name) and isinstance(n.ctx, ast.Store):
                        out[n.id] = st
        elif isinstance(st, (ast.AnnAssign, ast.AugAssign)) and isinstance(st.target, ast.Name):
            out[st.target.id] = st
        elif isinstance(st, (ast.Import, ast.ImportFrom)):
            for a in st.names:
                out[(a.asname or a.name).split(".")[0]] = st
        elif isinstance(st, (ast.For, ast.While, ast.With, ast.If, ast.Try)):
            for fld in ("body", "orelse", "finalbody"):
                out.update(_bound_top(getattr(st, fld, []) or []))
            if isinstance(st, ast.For):
                for n in ast.walk(st.target):
                    if isinstance(n, ast.Name):
                        out[n.id] = st
    return out


def _polarity_guard(pm, node, stop=None):
    """Polarity of the innermost enclosing `if cython.compiled:` arm (crossing nested function and
    class boundaries: a def inside a compiled-only arm exists only in the compiled build), else the
    polarity of an enclosing conditional expression; None when unguarded."""
    child = node
    cur = pm.get(node)
    while cur is not None and cur is not stop:
        if isinstance(cur, ast.If):
            c = _is_compiled_test(cur.test)
            if c is not None:
                if any(child is x for x in cur.body):
                    return c
                if any(child is x for x in cur.orelse):
                    return not c
        elif isinstance(cur, ast.IfExp):
            c = _is_compiled_test(cur.test)
            if c is not None:
                if child is cur.body:
                    return c
                if child is cur.orelse:
                    return not c
        child = cur
        cur = pm.get(cur)
    return None


def _sites(m):
    pm = m.parents()
    out = []
    for n in ast.walk(m.tree):
        if isinstance(n, ast.If) and _is_compiled_test(n.test) is not None:
            par = pm.get(n)
            while par is not None and not isinstance(par, (ast.Module, ast.ClassDef, ast.FunctionDef, ast.AsyncFunctionDef)):
                par = pm.get(par)
            out.append((n, par))
    out.sort(key=lambda x: x[0].lineno)
    return out


def _qual(pm, node):
    names = []
    cur = node
    while cur is not None:
        if isinstance(cur, (ast.ClassDef, ast.FunctionDef, ast.AsyncFunctionDef)):
            names.append(cur.name)
        cur = pm.get(cur)
    return ".".join(reversed(names))


def _sig(fn):
    a = fn.args
    return ([x.arg for x in a.posonlyargs], [x.arg for x in a.args], a.vararg.arg if a.vararg else None,
            [x.arg for x in a.kwonlyargs], a.kwarg.arg if a.kwarg else None, len(a.defaults))


@R.rule("C55-R1", floor=15, template="T-SIBLING",
        desc="every `if cython.compiled:` site: one-arm-only names are used only under the same polarity (or are "
             "special methods / __slots__ members), one-arm-only locals are not read after the branch, functions "
             "defined in both arms have identical parameters")
def r1(ctx):
    for m in _cy_modules(ctx):
        pm = m.parents()
        sites = _sites(m)
        keyed = ordinal_keys(sites, lambda s: f"{m.relpath}::{_qual(pm, s[0]) or '<module>'}:cython.compiled")
        for key, (site, scope) in keyed:
            comp_first = _is_compiled_test(site.test)
            arms = {comp_first: site.body, (not comp_first): site.orelse}
            bound = {pol: _bound_top(arms[pol]) for pol in (True, False)}
            problems = []
            loc = f"{m.path}:{site.lineno}"
            # functions in both arms: same parameters
            for nm in set(bound[True]) & set(bound[False]):
                a, b = bound[True][nm], bound[False][nm]
                if isinstance(a, ast.FunctionDef) and isinstance(b, ast.FunctionDef) and _sig(a) != _sig(b):
                    problems.append(f"`{nm}` has parameters {_sig(a)[:2]} when compiled but {_sig(b)[:2]} in pure Python")
                if isinstance(a, ast.FunctionDef) != isinstance(b, ast.FunctionDef) and not (
                        isinstance(a, (ast.Import, ast.ImportFrom)) or isinstance(b, (ast.Import, ast.ImportFrom))
                        or isinstance(a, ast.Assign) or isinstance(b, ast.Assign)):
                    problems.append(f"`{nm}` is a function in one build and not in the other")
            # one-arm-only names
            for pol in (True, False):
                only = set(bound[pol]) - set(bound[not pol])
                for nm in sorted(only):
                    mode = "compiled" if pol else "pure Python"
                    other = "pure Python" if pol else "compiled"
                    if isinstance(scope, ast.ClassDef):
                        if nm.startswith("__") and nm.endswith("__"):
                            ctx.note(f"{key}: special method/attribute {nm} exists only in the {mode} build")
                            continue
                        slots = set()
                        for st in scope.body:
                            if isinstance(st, ast.Assign) and any(isinstance(t, ast.Name) and t.id == "__slots__" for t in st.targets):
                                slots |= {e.value for e in ast.walk(st.value) if isinstance(e, ast.Constant) and isinstance(e.value, str)}
                        also = any(nm in _bound_top([st]) for st in scope.body if st is not site)
                        if nm in slots or also:
                            continue
                        uses = [n for n in ast.walk(scope) if isinstance(n, ast.Attribute) and n.attr == nm and isinstance(n.value, ast.Name)
                                and n.value.id in ("self", "cls")]
                    elif isinstance(scope, ast.Module):
                        also = any(nm in _bound_top([st]) for st in scope.body if st is not site
                                   and not (isinstance(st, ast.If) and _is_compiled_test(st.test) is not None))
                        if also:
                            continue
                        uses = [n for n in ast.walk(m.tree) if isinstance(n, ast.Name) and n.id == nm and isinstance(n.ctx, ast.Load)]
                    else:  # function level: reads after the branch
                        uses = [n for n in ast.walk(scope) if isinstance(n, ast.Name) and n.id == nm and isinstance(n.ctx, ast.Load)
                                and not any(x is n for x in ast.walk(site))]
                        # only reads that can follow the branch matter
                        uses = [n for n in uses if n.lineno > site.end_lineno or _encloses_loop(pm, site, n)]
                    bad = []
                    for u in uses:
                        if any(x is u for arm in (arms[pol],) for st in arm for x in ast.walk(st)):
                            continue  # inside its own arm
                        if _polarity_guard(pm, u) == pol:
                            continue
                        bad.append(u.lineno)
                    if bad:
                        problems.append(f"`{nm}` is bound only in the {mode} arm but read where the {other} build also runs (line(s) {sorted(set(bad))})")
            ctx.check(not problems, key, "; ".join(problems),
                      f"compiled arm binds {sorted(bound[True])}, pure arm binds {sorted(bound[False])}", loc)


def _encloses_loop(pm, site, node):
    """Is `node` inside a loop that also contains `site` (so it can execute after the branch)?"""
    cur = pm.get(site)
    while cur is not None and not isinstance(cur, (ast.FunctionDef, ast.AsyncFunctionDef, ast.Module)):
        if isinstance(cur, (ast.For, ast.While)) and any(x is node for x in ast.walk(cur)):
            return True
        cur = pm.get(cur)
    return False


def _defined_both_modes(m):
    """Module-level names defined whichever way `cython.compiled` evaluates."""
    out = set()
    for st in m.tree.body:
        if isinstance(st, ast.If) and _is_compiled_test(st.test) is not None:
            out |= set(_bound_top(st.body)) & set(_bound_top(st.orelse))
        elif isinstance(st, ast.Try):
            # `try: import cython / except: from sqlalchemy.util import cython`
            b = set(_bound_top(st.body))
            for h in st.handlers:
                b &= set(_bound_top(h.body))
            out |= b
        else:
            out |= set(_bound_top([st]))
    return out


@R.rule("C55-R2", floor=22, template="T-TABLE",
        desc="_all_cython_modules() == the *_cy.py modules of the tree; each defines _is_compiled() -> cython.compiled; "
             "every name imported from a *_cy module in the package is defined there in both build modes")
def r2(ctx):
    ix = ctx.index
    mods = _cy_modules(ctx)
    f = ctx.func("util/_has_cython.py::_all_cython_modules")
    listed = {}
    for st in walk_local(f.node):
        if isinstance(st, ast.ImportFrom):
            absmod = ix._abs_module(f.module, st.level, st.module)
            for a in st.names:
                listed[a.asname or a.name] = absmod + "." + a.name
        elif isinstance(st, ast.Import):
            for a in st.names:
                if a.asname:
                    listed[a.asname] = a.name

    def seq_of(e, depth=0):
        # the returned collection: a tuple / list display, possibly wrapped in tuple()/list() or held by a once-bound local
        if isinstance(e, (ast.Tuple, ast.List)):
            return e
        if isinstance(e, ast.Call) and call_name(e) in ("tuple", "list") and len(e.args) == 1 and not e.keywords:
            return seq_of(e.args[0], depth + 1)
        if isinstance(e, ast.Name) and depth < 3:
            v = _once_bound(f.node, e.id)
            return seq_of(v, depth + 1) if v is not None else None
        return None

    rets = [seq_of(r.value) for r in walk_local(f.node) if isinstance(r, ast.Return) and r.value is not None]
    ctx.require(len(rets) == 1 and rets[0] is not None, "_all_cython_modules does not return a tuple")
    returned = {listed.get(e.id) for e in rets[0].elts if isinstance(e, ast.Name)}
    tree = {m.name for m in mods}
    ctx.check(returned == tree, f"{f.key}:table",
              f"_all_cython_modules() returns {sorted(x for x in returned if x)} but the tree has {sorted(tree)} "
              f"(missing {sorted(tree - returned)}, stale {sorted(x for x in returned - tree if x)}): HAS_CYEXTENSION / test gating "
              f"would not see a module that fell back to pure Python",
              f"{len(tree)} modules listed", f.loc)
    for m in mods:
        fn = m.functions.get("_is_compiled")
        def is_flag(e):
            if isinstance(e, ast.Name):
                e = _once_bound(fn.node, e.id)
            if isinstance(e, ast.Call) and call_name(e) == "bool" and len(e.args) == 1:
                e = e.args[0]
            return e is not None and dotted(e) == "cython.compiled"
        frets = [r for r in walk_local(fn.node) if isinstance(r, ast.Return)] if fn is not None else []
        ok = fn is not None and bool(frets) and all(r.value is not None and is_flag(r.value) for r in frets)
        ctx.check(ok, f"{m.relpath}::_is_compiled", "does not define _is_compiled() returning cython.compiled",
                  "returns cython.compiled", m.path, nontrivial=False)
    # importers
    defined = {m.name: _defined_both_modes(m) for m in mods}
    per_mod = {m.name: [] for m in mods}
    for im in ix.all_modules():
        if "_cy" not in im.source:
            continue
        for node in ast.walk(im.tree):
            if isinstance(node, ast.ImportFrom):
                absmod = ix._abs_module(im, node.level, node.module)
                if absmod in defined:
                    for a in node.names:
                        per_mod[absmod].append((im, a.name, node.lineno))
    for m in mods:
        uses = per_mod[m.name]
        bad = [f"{im.relpath}:{ln} {nm}" for im, nm, ln in uses if nm != "*" and nm not in defined[m.name]]
        ctx.check(not bad, f"{m.relpath}:imported-names",
                  f"names imported from {m.relpath} that it does not define in both build modes: {bad}",
                  f"{len(uses)} imported name(s), all defined in both modes", m.path)
        ctx.require(uses or m.relpath.endswith("_cy.py"), "")
    total = sum(len(v) for v in per_mod.values())
    ctx.require(total >= 10, f"only {total} imports from *_cy modules found (import scan went blind)")
    # cython shim: every `cython.<name>` used by the modules exists in util/cython.py (pure-mode fallback)
    shim = ix.module("util/cython.py")
    shim_names = set(shim.functions) | set(shim.classes) | set(shim.assigns)
    for m in mods:
        used = sorted({n.attr for n in ast.walk(m.tree) if isinstance(n, ast.Attribute) and isinstance(n.value, ast.Name) and n.value.id == "cython"})
        pm = m.parents()
        missing = []
        for n in ast.walk(m.tree):
            if isinstance(n, ast.Attribute) and isinstance(n.value, ast.Name) and n.value.id == "cython" and n.attr not in shim_names:
                if _polarity_guard(pm, n) is True or n.attr == "cimports":
                    continue
                missing.append(f"cython.{n.attr} (line {n.lineno})")
        ctx.check(not missing, f"{m.relpath}:cython-shim",
                  f"uses {sorted(set(missing))} which the pure-Python shim util/cython.py does not provide (AttributeError without Cython)",
                  f"{len(used)} cython.* names, all provided by the shim", m.path)


def _ctype(ann):
    """'Py_ssize_t' for an annotation `cython.Py_ssize_t`; None otherwise."""
    d = dotted(ann) if ann is not None else None
    if d and d.startswith("cython.") and d.split(".", 1)[1] in CY_INT:
        return d.split(".", 1)[1]
    return None


def _python_visible(fn) -> bool:
    decos = [unparse(d.func if isinstance(d, ast.Call) else d) for d in fn.decorator_list]
    return "cython.cfunc" not in decos


def _c_int_names(fn):
    """{name: ctype} for parameters and locals of `fn` declared with a C integer type
    (annotations and @cython.locals)."""
    out = {}
    a = fn.args
    for x in a.posonlyargs + a.args + a.kwonlyargs:
        t = _ctype(x.annotation)
        if t:
            out[x.arg] = t
    for n in walk_local(fn):
        if isinstance(n, ast.AnnAssign) and isinstance(n.target, ast.Name):
            t = _ctype(n.annotation)
            if t:
                out[n.target.id] = t
    for d in fn.decorator_list:
        if isinstance(d, ast.Call) and unparse(d.func) == "cython.locals":
            for k in d.keywords:
                t = _ctype(k.value)
                if t and k.arg:
                    out[k.arg] = t
    return out


def _safe_source(e, cnames, consts, depth=0, fn=None):
    """Is `e` an integer that fits the C type by construction?"""
    if depth > 5:
        return False
    if isinstance(e, ast.Constant) and isinstance(e.value, int):
        return True
    if isinstance(e, ast.Name):
        if e.id in cnames or e.id in consts:
            return True
        # an untyped local bound once (`count = len(rows)` ... `size: cython.Py_ssize_t = count`)
        v = _once_bound(fn, e.id)
        return v is not None and _safe_source(v, cnames, consts, depth + 1, fn)
    if isinstance(e, ast.Call):
        nm = call_name(e) or ""
        if nm in ("len", "id", "_get_id", "PyList_GET_SIZE", "PyTuple_GET_SIZE"):
            return True
        if nm == "cython.cast" and e.args and _ctype(e.args[0]):
            return True
        return False
    if isinstance(e, ast.BinOp) and isinstance(e.op, (ast.Add, ast.Sub, ast.FloorDiv, ast.Mod)):
        return _safe_source(e.left, cnames, consts, depth + 1, fn) and _safe_source(e.right, cnames, consts, depth + 1, fn)
    if isinstance(e, ast.IfExp):
        return _safe_source(e.body, cnames, consts, depth + 1, fn) and _safe_source(e.orelse, cnames, consts, depth + 1, fn)
    if isinstance(e, ast.Attribute) and isinstance(e.value, ast.Name) and e.value.id == "self":
        return e.attr in cnames
    return False


def _once_bound(fn, name):
    """value of local `name` when `fn` binds it exactly once, by a plain (annotated) assignment; else None"""
    if fn is None or name in {x.arg for x in fn.args.posonlyargs + fn.args.args + fn.args.kwonlyargs}:
        return None
    vals, n_stores = [], 0
    for n in walk_local(fn):
        if isinstance(n, ast.Name) and n.id == name and isinstance(n.ctx, (ast.Store, ast.Del)):
            n_stores += 1
        if isinstance(n, ast.Assign) and len(n.targets) == 1 and isinstance(n.targets[0], ast.Name) and n.targets[0].id == name:
            vals.append(n.value)
        elif isinstance(n, ast.AnnAssign) and isinstance(n.target, ast.Name) and n.target.id == name and n.value is not None:
            vals.append(n.value)
    return vals[0] if len(vals) == 1 and n_stores == 1 else None


def _boolean_expr(e, bint_funcs, fn=None, depth=0) -> bool:
    if isinstance(e, ast.Name) and depth < 4:
        v = _once_bound(fn, e.id)
        return v is not None and _boolean_expr(v, bint_funcs, fn, depth + 1)
    if isinstance(e, ast.IfExp):
        return _boolean_expr(e.body, bint_funcs, fn, depth + 1) and _boolean_expr(e.orelse, bint_funcs, fn, depth + 1)
    if isinstance(e, ast.Constant) and isinstance(e.value, bool):
        return True
    if isinstance(e, ast.Compare):
        return True
    if isinstance(e, ast.UnaryOp) and isinstance(e.op, ast.Not):
        return True
    if isinstance(e, ast.BoolOp):
        return all(_boolean_expr(v, bint_funcs, fn, depth + 1) for v in e.values)
    if isinstance(e, ast.Call):
        nm = (call_name(e) or "").rsplit(".", 1)[-1]
        return nm in ("isinstance", "issubclass", "hasattr", "bool", "callable") or nm in bint_funcs
    return False


@R.rule("C55-R3", floor=22, template="T-FLOW",
        desc="C integer narrowing: typed locals only receive len()/id()/literal/range/C-typed values; typed parameters "
             "of Python-visible callables reach a builtin doing the same conversion on every path; `-> cython.bint` "
             "callables return boolean expressions")
def r3(ctx):
    for m in _cy_modules(ctx):
        pm = m.parents()
        consts = set()
        for st in m.tree.body:
            if isinstance(st, ast.Assign) and isinstance(st.value, ast.Call) and call_name(st.value) == "cython.declare" \
                    and st.value.args and _ctype(st.value.args[0]):
                consts |= {t.id for t in st.targets if isinstance(t, ast.Name)}
        funcs = [n for n in ast.walk(m.tree) if isinstance(n, (ast.FunctionDef, ast.AsyncFunctionDef))]
        bint_funcs = {fn.name for fn in funcs if fn.returns is not None and dotted(fn.returns) == "cython.bint"}
        # class-level C-typed attributes
        for cls in [n for n in ast.walk(m.tree) if isinstance(n, ast.ClassDef)]:
            for st in ast.walk(cls):
                if isinstance(st, ast.AnnAssign) and isinstance(st.target, ast.Name) and _ctype(st.annotation) and pm.get(st) is not None \
                        and not isinstance(_enclosing_func(pm, st), (ast.FunctionDef, ast.AsyncFunctionDef)):
                    key = f"{m.relpath}::{_qual(pm, cls)}.{st.target.id}"
                    if key in R3_EXCEPTIONS:
                        ctx.ok(key, "exempt: " + R3_EXCEPTIONS[key], nontrivial=False)
                    else:
                        ctx.violation(key, f"attribute `{st.target.id}: cython.{_ctype(st.annotation)}` is a fixed-width C integer only in the "
                                           f"compiled build (wraps / overflows there, unbounded in pure Python)", f"{m.path}:{st.lineno}")
        for fn in sorted(funcs, key=lambda f: f.lineno):
            q = _qual(pm, fn)
            pol = _polarity_guard(pm, fn)
            ctx.functions_analysed.add(f"{m.relpath}::{q}")
            cn = _c_int_names(fn)
            params = {x.arg for x in fn.args.posonlyargs + fn.args.args + fn.args.kwonlyargs}
            visible = _python_visible(fn) and pol is not True
            for nm, ct in sorted(cn.items()):
                key = f"{m.relpath}::{q}:{nm}"
                loc = f"{m.path}:{fn.lineno}"
                if key in R3_EXCEPTIONS:
                    ctx.ok(key, "exempt: " + R3_EXCEPTIONS[key], nontrivial=False)
                    continue
                if nm in params:
                    if not visible:
                        ctx.ok(key, f"cython.{ct} parameter of a C-only function (callers are compiled code)", nontrivial=False)
                        continue
                    # every path from entry must hand the parameter to a same-converting builtin before any other use
                    g = ctx.cfg(fn)
                    conv = []
                    for node in g.nodes:
                        if node.stmt is None or not isinstance(node.stmt, ast.stmt) or node.kind not in ("stmt", "test", "for"):
                            continue
                        for part in own_exprs(node.stmt):
                            for c in calls_in(part):
                                suffix = (call_name(c) or "").rsplit(".", 1)[-1]
                                for i, a in enumerate(c.args):
                                    if isinstance(a, ast.Name) and a.id == nm and (suffix, i) in SAME_CONVERSION:
                                        conv.append(node.id)
                    w = g.must_pass([g.entry], [g.exit], conv, edge_ok=lambda a, b, l: l != "exc") if conv else ["no use of the parameter converts it the same way in CPython"]
                    ctx.check(w is None, key,
                              f"parameter `{nm}: cython.{ct}` of Python-visible `{q}` is converted to a C integer at call time only in the "
                              f"compiled build (TypeError for non-integers such as slices, OverflowError beyond the C range); the pure-Python "
                              f"build accepts the call on a path that never converts it",
                              f"`{nm}` reaches a same-converting builtin on every path", loc, w)
                else:
                    srcs = []
                    for n in walk_local(fn):
                        if isinstance(n, ast.Assign) and any(isinstance(t, ast.Name) and t.id == nm for t in n.targets):
                            srcs.append(n.value)
                        elif isinstance(n, ast.AnnAssign) and isinstance(n.target, ast.Name) and n.target.id == nm and n.value is not None:
                            srcs.append(n.value)
                        elif isinstance(n, ast.AugAssign) and isinstance(n.target, ast.Name) and n.target.id == nm:
                            srcs.append(n.value)
                        elif isinstance(n, ast.For) and isinstance(n.target, ast.Name) and n.target.id == nm:
                            it = n.iter
                            if isinstance(it, ast.Call) and call_name(it) == "range":
                                srcs.extend(it.args)
                            else:
                                srcs.append(it)
                    bad = [unparse(s)[:40] for s in srcs if not _safe_source(s, set(cn), consts, 0, fn)]
                    ctx.check(not bad, key,
                              f"local `{nm}: cython.{ct}` receives {bad}: an arbitrary Python integer is narrowed to a C integer only in "
                              f"the compiled build (OverflowError / wrap-around there, exact in pure Python)",
                              f"{len(srcs)} assignment(s) from len()/id()/literals/range/C-typed values", loc)
            # -> cython.bint on Python-visible callables
            if fn.returns is not None and dotted(fn.returns) == "cython.bint" and visible:
                rets = [r for r in walk_local(fn) if isinstance(r, ast.Return) and r.value is not None]
                bad = [unparse(r.value)[:50] for r in rets if not _boolean_expr(r.value, bint_funcs, fn)]
                ctx.check(not bad and rets, f"{m.relpath}::{q}:return-bint",
                          f"`{q}` -> cython.bint returns {bad}: the compiled build coerces to bool, the pure-Python build returns the object itself",
                          f"{len(rets)} return(s), all boolean expressions", f"{m.path}:{fn.lineno}")


def _enclosing_func(pm, node):
    cur = pm.get(node)
    while cur is not None and not isinstance(cur, (ast.FunctionDef, ast.AsyncFunctionDef, ast.ClassDef, ast.Module)):
        cur = pm.get(cur)
    return cur


# ---------------------------------------------------------------------- R4 / R5: the two build variants of a function
FUNC = (ast.FunctionDef, ast.AsyncFunctionDef)


def _declaration_only(st) -> bool:
    return isinstance(st, FUNC + (ast.ClassDef, ast.Import, ast.ImportFrom, ast.Pass)) or (isinstance(st, ast.AnnAssign) and st.value is None) \
        or (isinstance(st, ast.Expr) and isinstance(st.value, ast.Constant))


def _arm_pairs(m):
    """[(key, compiled source function, pure source function, trivial)]: every function that exists in two build
    variants -- two defs of one name in the arms of one `if cython.compiled:` (any level), or one function whose own
    body branches on `cython.compiled` (statement or conditional expression)."""
    pm = m.parents()
    out, seen = [], set()
    for site, scope in _sites(m):
        comp_first = _is_compiled_test(site.test)
        arms = {comp_first: site.body, (not comp_first): site.orelse}
        b = {pol: _bound_top(arms[pol]) for pol in (True, False)}
        for nm in sorted(set(b[True]) & set(b[False])):
            if isinstance(b[True][nm], FUNC) and isinstance(b[False][nm], FUNC):
                out.append((f"{m.relpath}::{_qual(pm, b[True][nm])}", b[True][nm], b[False][nm], False))
        if isinstance(scope, FUNC) and id(scope) not in seen and not all(_declaration_only(st) for st in site.body + site.orelse):
            seen.add(id(scope))
            out.append((f"{m.relpath}::{_qual(pm, scope)}", scope, scope, False))
    for fn in ast.walk(m.tree):
        if isinstance(fn, FUNC) and id(fn) not in seen and any(
                isinstance(n, ast.IfExp) and _is_compiled_test(n.test) is not None for st in fn.body for n in [st, *walk_local(st)]
                if not isinstance(st, FUNC + (ast.ClassDef,))):
            seen.add(id(fn))
            out.append((f"{m.relpath}::{_qual(pm, fn)}", fn, fn, False))
    out.sort(key=lambda x: x[1].lineno)
    return out


LEGEND = "  [<=p> the parameter p itself, <p> all of its content, <p[]> an element of it, <p#> its size, <p~> a value computed from it]"


def _opaque(tok) -> bool:
    tok = str(tok)
    return tok.startswith("?") or "?" in tok.split("(")[0] or tok.startswith(("free:", "def:", "attr", "elem", "local:", "iter?", "range?", "while"))


def _variants(ctx, key, fc, fp):
    """the two build variants; keyed lookups in a parameter that is a builtin dict (`self` of a Dict subclass, a `dict`
    annotated parameter, the source of a `d: dict = p` local) are read as lookups, whatever their spelling (str2-x)"""
    cache = ctx.__dict__.setdefault("_c55_variants", {})
    k = (key, id(fc), id(fp))
    if k not in cache:
        m = ctx.index.module(key.split("::", 1)[0])
        pm = m.parents()
        out = []
        for fn, pol in ((fc, True), (fp, False)):
            dicts, doms = dict_facts(m, pm, fn)
            out.append(LookupVariant(ctx, fn, pol, key, dicts, doms))
        cache[k] = tuple(out)
    return cache[k]


def _apps_by_callee(v):
    d = {}
    for a in v.applications():
        d.setdefault(a.callee, []).append(a)
    return d


def _private(vc, vp):
    rc, rp = vc.param_reads(), vp.param_reads()
    return rc - rp, rp - rc


def _loops_private(apps, priv) -> bool:
    """does a loop around one of the applications depend on the caller: iterates an arm-private parameter, or runs
    over range(<parameter>)?"""
    return any(isinstance(x, frozenset) and ({root_base(r) for r in x} & priv or k == "range") for a in apps for k, x in a.loops)


def _fmt_loops(loops) -> str:
    if not loops:
        return "once"
    return " / ".join(f"{k} {'<' + '+'.join(sorted(x)) + '>' if isinstance(x, frozenset) else x}" for k, x in loops)


def _sibling_note(ctx, name, skip_key):
    """same-named split functions of the other *_cy modules: under which value-dependent conditions they apply a
    caller-supplied callable (diagnostic only: tells which arm left the family)"""
    notes = []
    for m in _cy_modules(ctx):
        for key, fc, fp, _t in _arm_pairs(m):
            if key == skip_key or key.rsplit("::", 1)[1].rsplit(".", 1)[-1] != name:
                continue
            vc, vp = _variants(ctx, key, fc, fp)
            desc = []
            for lab, v in (("compiled", vc), ("pure", vp)):
                gs = {fmt_atoms(a.arg_guards) for a in v.applications() if a.derived}
                desc.append(f"{lab}: {sorted(gs)}")
            notes.append(f"{key} ({'; '.join(desc)})")
    return ("; same-named split function(s): " + ", ".join(notes)) if notes else ""


@R.rule("C55-R4", floor=29, template="T-SIBLING",
        desc="every function that exists in two build variants (two defs in the arms of `if cython.compiled:`, or a body "
             "branching on it): both variants return the same container kinds and may return a PARAMETER ITSELF in the same "
             "cases, mutate the same parameters the same way, raise/assert the same, apply the same caller-supplied callables "
             "to the same arguments under the same value-dependent guards (and, where no arm-private parameter is involved, "
             "over the same loops / other guards), hash every element of the same parameters on every returning path")
def r4(ctx):
    for m in _cy_modules(ctx):
        for key, fc, fp, _t in _arm_pairs(m):
            loc = f"{m.path}:{fp.lineno}"
            ctx.functions_analysed.add(key)
            vc, vp = _variants(ctx, key, fc, fp)
            name = key.rsplit("::", 1)[1].rsplit(".", 1)[-1]
            # ---- returns
            kc, ac = vc.returns()
            kp, ap = vp.returns()
            k = f"{key}:arms:returns"
            if ac != ap:
                only = [("compiled", ac - ap, "pure-Python"), ("pure-Python", ap - ac, "compiled")]
                msg = "; ".join(f"the {who} variant may return its argument `{'`, `'.join(sorted(ps))}` itself (an alias the caller can observe "
                                f"and mutate through) where the {other} variant only returns objects it built" for who, ps, other in only if ps)
                ctx.violation(k, msg, loc)
            elif kc != kp:
                diff = kc ^ kp
                ctx.require(not any(_opaque(t) for t in diff), f"{k}: return kinds {sorted(kc)} vs {sorted(kp)} cannot be compared (opaque value)")
                ctx.violation(k, f"the compiled variant returns {sorted(kc)}, the pure-Python variant returns {sorted(kp)}", loc)
            else:
                ctx.ok(k, f"both variants return {sorted(kc)}; parameters returned as such: {sorted(ac) or 'none'}")
            # ---- mutations of parameters
            mc, mp = vc.mutations(), vp.mutations()
            k = f"{key}:arms:mutations"
            if mc != mp:
                diff = mc ^ mp
                ctx.require(not any(_opaque(v) for _p, _w, v in diff if v), f"{k}: stored values {sorted(diff)} cannot be compared (opaque value)")
                ctx.violation(k, f"parameter mutations differ: only compiled {sorted(mc - mp)}, only pure-Python {sorted(mp - mc)} "
                                 f"(parameter, kind of store, stored value)", loc)
            else:
                ctx.ok(k, f"both variants perform {sorted(mc) or 'no store into a parameter'}", nontrivial=bool(mc))
            # ---- raise / assert
            rc, rp = vc.raises(), vp.raises()
            ctx.check(rc == rp, f"{key}:arms:raises",
                      f"compiled variant raises {sorted(rc[0])} / asserts over {list(rc[1])}; pure-Python variant raises {sorted(rp[0])} / asserts over {list(rp[1])}",
                      f"both raise {sorted(rc[0]) or 'nothing explicitly'}, assert over {list(rc[1]) or 'nothing'}", loc, nontrivial=bool(rc[0] or rc[1]))
            # ---- applications of callables
            dc, dp = _apps_by_callee(vc), _apps_by_callee(vp)
            privc, privp = _private(vc, vp)
            priv = privc | privp
            k = f"{key}:arms:applications"
            problems, deferred = [], False
            for callee in sorted(set(dc) | set(dp)):
                ca, pa = dc.get(callee, []), dp.get(callee, [])
                if not ca or not pa:
                    a = (ca or pa)[0]
                    ctx.require(a.derived and "+" not in callee, f"{k}: only the {'compiled' if ca else 'pure-Python'} variant calls `{callee}` ({a.text}); "
                                                                 f"a helper known to one variant only / a callee of mixed origin cannot be compared")
                    problems.append(f"only the {'compiled' if ca else 'pure-Python'} variant calls the caller-supplied callable {callee} ({a.text})")
                    continue
                vc_set = {(a.args, a.arg_guards) for a in ca}
                vp_set = {(a.args, a.arg_guards) for a in pa}
                if vc_set != vp_set:
                    undeclared = sorted(t for _args, g in vc_set ^ vp_set for t, _p in g if t.startswith("?lookup"))
                    ctx.require(not undeclared, f"{k}: the guards of `{callee}` differ in a test on a looked-up dictionary value whose "
                                                f"type is not declared, they cannot be compared: {undeclared[:1]}")
                    fm = lambda s: sorted(f"{callee}({', '.join(args)}) when {fmt_atoms(g)}" for args, g in s)  # noqa: E731
                    problems.append(f"the compiled variant applies {fm(vc_set)}, the pure-Python variant applies {fm(vp_set)}: whether/with what the callable "
                                    f"is applied depends on the passed value differently in the two builds" + (_sibling_note(ctx, name, key) if ca[0].derived else ""))
                    continue
                if _loops_private(ca + pa, priv):
                    deferred = True
                    continue
                gc, gp = {a.other_guards for a in ca}, {a.other_guards for a in pa}
                if gc != gp:
                    undeclared = sorted(t for g in gc ^ gp for t, _p in g if t.startswith("?lookup"))
                    ctx.require(not undeclared, f"{k}: the guards of `{callee}` differ in a test on a looked-up dictionary value whose "
                                                f"type is not declared, they cannot be compared: {undeclared[:1]}")
                    fm = lambda s: sorted(fmt_atoms(g) for g in s)  # noqa: E731
                    problems.append(f"{callee} is applied when {fm(gc)} by the compiled variant but when {fm(gp)} by the pure-Python variant")
                    continue
                lc, lp = {a.loops for a in ca}, {a.loops for a in pa}
                # which elements a loop visits is value-level: a different loop shape is not a verdict
                ctx.require(lc == lp, f"{k}: the loops around `{callee}` differ in shape and cannot be compared: compiled "
                                      f"{sorted(_fmt_loops(x) for x in lc)}, pure-Python {sorted(_fmt_loops(x) for x in lp)}")
            n_apps = sum(len(v) for v in dc.values()) + sum(len(v) for v in dp.values())
            ctx.check(not problems, k, "; ".join(problems) + LEGEND,
                      f"{n_apps} application(s) of {sorted(set(dc) | set(dp)) or 'no non-builtin callable'} agree"
                      + (" (loop domain depends on what the caller passes: decided per call site by C55-R5)" if deferred else ""), loc, nontrivial=bool(n_apps))
            # ---- hashing (TypeError for unhashable elements)
            hc, hp = vc.hashing(), vp.hashing()
            for p in sorted(set(hc) | set(hp)):
                k = f"{key}:arms:hashes[{p}]"
                sc, sp = hc.get(p, ("never", None)), hp.get(p, ("never", None))
                ctx.require("unknown" not in (sc[0], sp[0]), f"{k}: a hashing operation over `{p}` has a shape that is not understood")
                if sc[0] == sp[0]:
                    ctx.ok(k, f"both variants hash every element of `{p}`: {sc[0]}")
                else:
                    w = sc[1] or sp[1]
                    ctx.violation(k, f"every element of `{p}` is hashed (TypeError for an unhashable element) {sc[0].replace('-', ' ')} in the compiled variant "
                                     f"but {sp[0].replace('-', ' ')} in the pure-Python variant", loc, w)


def _calls_of(m, name, exclude):
    pm = m.parents()
    out = []
    for n in ast.walk(m.tree):
        if isinstance(n, ast.Call) and isinstance(n.func, ast.Name) and n.func.id == name:
            if any(a is x for a in ancestors(pm, n) for x in exclude):
                continue
            out.append(n)
    out.sort(key=lambda c: (c.lineno, c.col_offset))
    return out


def _resolve_private(ctx, m, call, actual, q, shared_of):
    """Selection contributed at this call site by the arm-private parameter `q`: (root parameter, filter atoms).
    `shared_of`: {caller variable name: shared parameter it is passed for}."""
    pm = m.parents()
    what = f"argument for `{q}` at line {call.lineno}"
    e = actual.get(q)
    ctx.require(e is not None, f"{what}: not passed")
    def final_shapes(expr, depth=0):
        """[(shape, binding statement, scope)]: names resolved through their plain bindings (recursively: `t = tuple(v)`
        where `v` is a local), a list filled by one loop read as the equivalent comprehension"""
        sh0 = shape_of(expr)
        if sh0[0] != "name":
            return [(sh0, None, None)]
        ctx.require(depth < 4, f"{what}: alias chain too long")
        scope, binds = resolve_name(pm, call, sh0[1])
        ctx.require(scope is not None and binds and all(v is not None for v, _st in binds), f"{what}: `{sh0[1]}` is not bound by plain assignments in an enclosing function")
        out = []
        for v, st in binds:
            comp = loop_as_comprehension(pm, scope, sh0[1], v, st)
            v2 = comp if comp is not None else v
            for s3, st3, sc3 in final_shapes(v2, depth + 1):
                out.append((s3, st3 if st3 is not None else st, sc3 if sc3 is not None else scope))
        return out

    shapes = final_shapes(e)
    results = set()
    for sh, st, scope in shapes:
        ctx.require(sh[0] in ("len", "indices_where", "empty"), f"{what}: value `{sh[-1]}` is not len(V) / indexes of V where ... / empty")
        if sh[0] == "empty":
            # consistent only with an equally empty V bound in the same block
            ctx.require(st is not None, f"{what}: literal empty argument")
            blk = _block_of(pm, st)
            ok = any(isinstance(s2, ast.Assign) and _is_empty_literal(s2.value) and any(isinstance(t, ast.Name) and t.id in shared_of for t in s2.targets)
                     for s2 in (blk or []))
            ctx.require(ok, f"{what}: bound to an empty literal in a block that does not bind the processed sequence to an empty literal as well")
            continue
        V = sh[1]
        ctx.require(V in shared_of, f"{what}: computed from `{V}`, which is not what the call passes for a parameter both variants read")
        # V must be bound before this value is computed, never after
        if st is not None:
            vscope, vb = resolve_name(pm, call, V)
            ctx.require(vscope is scope, f"{what}: `{V}` and `{sh and q}` are bound in different scopes")
            if sh[0] == "len":
                ctx.require(all(s2.lineno < st.lineno for _v, s2 in vb), f"{what}: `{V}` is re-bound after its length is taken")
            else:
                blk = _block_of(pm, st) or []
                before = [s2 for _v, s2 in vb if any(s2 is x for x in blk) and s2.lineno < st.lineno]
                after = [s2 for _v, s2 in vb if any(s2 is x for x in blk) and s2.lineno > st.lineno]
                ctx.require(before and not after, f"{what}: `{V}` is not bound just before its index list in the same block")
        s = shared_of[V]
        if sh[0] == "len":
            results.add((s, frozenset()))
        else:
            results.add((s, filter_atoms(sh[2], sh[3], "<" + s + "[]>")))
    ctx.require(len(results) == 1, f"{what}: bound to values of different shapes {sorted(map(str, results))}")
    return results.pop()


@R.rule("C55-R5", floor=2, template="T-TABLE",
        desc="split functions with arm-private parameters (read by one build variant only): at every call site the loop "
             "domain + non-value guards of each application, after substituting how the caller computes the private "
             "arguments (len(V) / indexes of V where <filter>), select the same elements in both variants")
def r5(ctx):
    for m in _cy_modules(ctx):
        pm = m.parents()
        for key, fc, fp, _t in _arm_pairs(m):
            vc, vp = _variants(ctx, key, fc, fp)
            privc, privp = _private(vc, vp)
            priv = privc | privp
            dc, dp = _apps_by_callee(vc), _apps_by_callee(vp)
            todo = [c for c in sorted(set(dc) & set(dp)) if _loops_private(dc[c] + dp[c], priv)]
            if not todo:
                continue
            ctx.functions_analysed.add(key)
            calls = _calls_of(m, fc.name, (fc, fp))
            ctx.require(calls, f"{key}: has arm-private parameters {sorted(priv)} but no call site was found in {m.relpath}")
            keyed = ordinal_keys(calls, lambda c: f"{key}:arms:selection@{_qual(pm, pm.get(c)) or '<module>'}")
            for ckey, call in keyed:
                actual = bind_call(call, fp)
                ctx.require(actual is not None, f"{ckey}: call uses */** arguments")
                shared = (set(vc.params) & set(vp.params)) - priv
                shared_of = {a.id: p for p, a in actual.items() if p in shared and isinstance(a, ast.Name)}
                problems = []
                for callee in todo:
                    sel = {}
                    for lab, apps in (("compiled", dc[callee]), ("pure-Python", dp[callee])):
                        s = set()
                        for a in apps:
                            loops, extra = [], set()
                            for kind, x in a.loops:
                                if isinstance(x, frozenset) and ({root_base(r) for r in x} & priv or kind == "range"):
                                    ctx.require(len(x) == 1 and kind in ("range", "over") and all(r == root_base(r) for r in x),
                                                f"{ckey}: loop `{kind} {sorted(x)}` is not a plain iteration of one parameter")
                                    root, flt = _resolve_private(ctx, m, call, actual, next(iter(x)), shared_of)
                                    loops.append(("over", frozenset([root])))
                                    extra |= flt
                                else:
                                    ctx.require(isinstance(x, frozenset), f"{ckey}: loop `{kind} {x}` around {callee} is not understood")
                                    loops.append(("over", x) if kind == "over" else (kind, x))
                            s.add((tuple(loops), frozenset(a.other_guards | extra)))
                        sel[lab] = s
                    gc, gp = {g for _l, g in sel["compiled"]}, {g for _l, g in sel["pure-Python"]}
                    fm = lambda s: sorted(f"[{_fmt_loops(loops)}] where {fmt_atoms(g)}" for loops, g in s)  # noqa: E731
                    if gc != gp:
                        problems.append(f"with the arguments of this call the compiled variant applies {callee} {fm(sel['compiled'])} but the pure-Python "
                                        f"variant {fm(sel['pure-Python'])}: the two builds select different elements")
                        continue
                    ctx.require({x for x, _g in sel["compiled"]} == {x for x, _g in sel["pure-Python"]},
                                f"{ckey}: the loops around `{callee}` differ in shape and cannot be compared: {fm(sel['compiled'])} vs {fm(sel['pure-Python'])}")
                ctx.check(not problems, ckey, "; ".join(problems) + LEGEND,
                          f"arm-private {sorted(priv)} resolved through the caller: both variants select the same elements for {todo}", f"{m.path}:{call.lineno}")


# ---------------------------------------------------------------------- self-test battery
IMM = "util/_immutabledict_cy.py"
COLL = "util/_collections_cy.py"
SQLU = "sql/_util_cy.py"
RES = "engine/_result_cy.py"
ROW = "engine/_row_cy.py"
EUT = "engine/_util_cy.py"

R.mutant("pure-arm-loses-fallback", IMM,
         sub("if cython.compiled:\n    from cython.cimports.cpython.dict import PyDict_Update\nelse:\n    PyDict_Update = dict.update\n",
             "if cython.compiled:\n    from cython.cimports.cpython.dict import PyDict_Update\nelse:\n    _PyDict_Update = dict.update\n"), "C55-R1")
R.mutant("get-id-only-when-compiled", SQLU,
         sub("if cython.compiled:\n    from cython.cimports.sqlalchemy.util._collections_cy import _get_id\nelse:\n    _get_id = id\n",
             "if cython.compiled:\n    from cython.cimports.sqlalchemy.util._collections_cy import _get_id\n"), "C55-R1")
R.mutant("apply-processors-signature-drift", RES,
         sub("        proc: _ProcessorsType,\n        proc_size: int,  # used only by cython impl\n        proc_valid: tuple[int, ...],\n        data: Sequence[Any],",
             "        proc: _ProcessorsType,\n        proc_valid: tuple[int, ...],\n        proc_size: int,  # used only by cython impl\n        data: Sequence[Any],"), "C55-R1")
R.mutant("local-only-in-compiled-arm-read-later", COLL,
         sub("    if cython.compiled:\n        seen: Set[_T] = set()\n        return [x for x in seq if x not in seen and not set.add(seen, x)]\n    else:\n        return list(dict.fromkeys(seq))\n",
             "    if cython.compiled:\n        seen: Set[_T] = set()\n        res = [x for x in seq if x not in seen and not set.add(seen, x)]\n    else:\n        res = list(dict.fromkeys(seq))\n    _n = len(seen)\n    return res\n"), "C55-R1")
R.mutant("cython-module-not-listed", "util/_has_cython.py",
         sub("        _row_cy,\n        engine_util,", "        engine_util,"), "C55-R2")
R.mutant("is-compiled-constant", ROW,
         sub("    return cython.compiled  # type: ignore[no-any-return,unused-ignore]", "    return True"), "C55-R2")
R.mutant("wrapper-imports-missing-name", "engine/processors.py",
         sub("from ._processors_cy import to_str as to_str  # noqa: F401", "from ._processors_cy import to_string as to_str  # noqa: F401"), "C55-R2")
R.mutant("helper-defined-only-compiled-used-unguarded", COLL,
         sub("else:\n    _get_id = id\n\n\n@cython.cclass\nclass IdentitySet:", "\n\n@cython.cclass\nclass IdentitySet:"), "C55-R1")
R.mutant("name-defined-only-compiled-but-imported", "engine/_processors_cy.py",
         sub("@cython.annotation_typing(False)\ndef to_str(value: Any) -> Optional[str]:\n    if value is None:\n        return None\n    return str(value)\n",
             "if cython.compiled:\n\n    @cython.annotation_typing(False)\n    def to_str(value: Any) -> Optional[str]:\n        if value is None:\n            return None\n        return str(value)\n"), "C55-R2")
R.mutant("local-narrowed-from-element", EUT,
         sub("def tuplegetter(*indexes: int) -> _TupleGetterType:\n    max_index: int\n", "def tuplegetter(*indexes: int) -> _TupleGetterType:\n    max_index: cython.Py_ssize_t\n"), "C55-R3")
# (was `proc_size = processors[0]`: since C55-R5 that edit is an unknown shape for the arm-private parameter -> exit 2
# before R3 reports; the same narrowing is exercised on a local no split function depends on)
R.mutant("flag-narrowed-from-attribute", RES,
         sub("        flag: cython.char = _FLAG_SIMPLE\n", "        flag: cython.char = real_result._source_supports_scalars\n"), "C55-R3")
R.mutant("bint-returns-object", COLL,
         sub("        return self._members.keys() <= other._members.keys()", "        return other._members or self._members"), "C55-R3")
R.mutant("new-ctyped-public-param", COLL,
         sub("    def discard(self, element: _T, /) -> None:\n        if element in self:\n            set.remove(self, element)\n            self._list.remove(element)",
             "    def discard(self, element: _T, /, count: cython.int = 1) -> None:\n        if element in self:\n            set.remove(self, element)\n            self._list.remove(element)"), "C55-R3")
# benign
R.mutant("benign-swap-arms", IMM,
         sub("if cython.compiled:\n    from cython.cimports.cpython.dict import PyDict_Update\nelse:\n    PyDict_Update = dict.update\n",
             "if not cython.compiled:\n    PyDict_Update = dict.update\nelse:\n    from cython.cimports.cpython.dict import PyDict_Update\n"), None)
R.mutant("benign-rename-loop-index", EUT,
         sub("    i: cython.Py_ssize_t\n    prev: cython.Py_ssize_t\n    curr: cython.Py_ssize_t\n    for i in range(1, len(indexes)):\n        prev = indexes[i - 1]\n        curr = indexes[i]\n",
             "    pos: cython.Py_ssize_t\n    prev: cython.Py_ssize_t\n    curr: cython.Py_ssize_t\n    for pos in range(1, len(indexes)):\n        prev = indexes[pos - 1]\n        curr = indexes[pos]\n"), None)
R.mutant("benign-extra-helper-both-arms", SQLU,
         sub("if cython.compiled:\n    from cython.cimports.sqlalchemy.util._collections_cy import _get_id\nelse:\n    _get_id = id\n",
             "if cython.compiled:\n    from cython.cimports.sqlalchemy.util._collections_cy import _get_id\n\n    _MODE = 1\nelse:\n    _get_id = id\n    _MODE = 0\n"), None)

# ---- R4 / R5 (str-v): the two build variants of a function
_PURE_APPLY = "        res = list(data)\n        for i in proc_valid:\n            res[i] = proc[i](res[i])\n        return tuple(res)\n"
R.mutant("seed-pure-apply-processors-skips-none", RES,
         sub(_PURE_APPLY,
             "        res = list(data)\n        for i in proc_valid:\n            value = res[i]\n            if value is not None:\n"
             "                res[i] = proc[i](value)\n        return tuple(res)\n"), "C55-R4")
R.mutant("seed-pure-unique-list-returns-argument", COLL,
         sub("    else:\n        return list(dict.fromkeys(seq))\n",
             "    else:\n        if type(seq) is list and len(seq) < 2:\n            return seq\n        return list(dict.fromkeys(seq))\n"), "C55-R4")
R.mutant("pure-unique-list-short-input-not-hashed", COLL,
         sub("    else:\n        return list(dict.fromkeys(seq))\n",
             "    else:\n        if type(seq) is list and len(seq) < 2:\n            return list(seq)\n        return list(dict.fromkeys(seq))\n"), "C55-R4")
R.mutant("pure-row-apply-processors-in-place", ROW,
         sub("        res: List[Any] = list(data)\n        proc_size = len(proc)\n",
             "        res: List[Any] = data if type(data) is list else list(data)\n        proc_size = len(proc)\n"), "C55-R4")
R.mutant("pure-many-rows-returns-tuple", RES,
         sub("                return [single_row(row) for row in rows]\n", "                return tuple(single_row(row) for row in rows)\n"), "C55-R4")
R.mutant("pure-set-attrs-swaps-values", ROW,
         sub('            object.__setattr__(self, "_key_to_index", key_to_index)\n            object.__setattr__(self, "_data", data)\n',
             '            object.__setattr__(self, "_key_to_index", data)\n            object.__setattr__(self, "_data", key_to_index)\n'), "C55-R4")
R.mutant("compiled-row-apply-processors-drops-assert", ROW,
         sub("        proc_size = len(proc)\n        # TODO: would be nice to do this only on the fist row\n        assert len(data) == proc_size\n",
             "        proc_size = len(proc)\n"), "C55-R4")
R.mutant("compiled-interim-rows-skips-empty-rows", RES,
         sub("                        row: object = single_interim_row(rows[i])\n",
             "                        row: object = single_interim_row(rows[i]) if rows[i] else rows[i]\n"), "C55-R4")
R.mutant("pure-row-apply-processors-passes-index", ROW,
         sub("            if p is not None:\n                res[i] = p(res[i])\n        return tuple(res)\n",
             "            if p is not None:\n                res[i] = p(res[i], i)\n        return tuple(res)\n"), "C55-R4")
R.mutant("caller-index-list-loses-none-filter", RES,
         sub("                [i for i, p in enumerate(processors) if p is not None]\n", "                [i for i, p in enumerate(processors)]\n"), "C55-R5")
R.mutant("compiled-apply-processors-tests-truth-not-none", RES,
         sub("            p = proc[i]\n            if p is not None:\n                value = p(data[i])\n            else:\n                value = data[i]\n            Py_INCREF(value)\n            PyTuple_SET_ITEM(res, i, value)\n        return res\n\nelse:\n\n    def _apply_processors(\n        proc: _ProcessorsType,\n        proc_size: int,",
             "            p = proc[i]\n            if callable(p):\n                value = p(data[i])\n            else:\n                value = data[i]\n            Py_INCREF(value)\n            PyTuple_SET_ITEM(res, i, value)\n        return res\n\nelse:\n\n    def _apply_processors(\n        proc: _ProcessorsType,\n        proc_size: int,"), "C55-R5")
# benign
R.mutant("benign-pure-apply-processors-local-for-value", RES,
         sub(_PURE_APPLY,
             "        out = list(data)\n        for pos in proc_valid:\n            value = out[pos]\n            fn = proc[pos]\n            out[pos] = fn(value)\n        return tuple(out)\n"), None)
R.mutant("benign-pure-apply-processors-redundant-none-guard", RES,
         sub(_PURE_APPLY,
             "        res = list(data)\n        for i in proc_valid:\n            if proc[i] is not None:\n                res[i] = proc[i](res[i])\n        return tuple(res)\n"), None)
R.mutant("benign-pure-unique-list-empty-fast-path", COLL,
         sub("    else:\n        return list(dict.fromkeys(seq))\n",
             "    else:\n        if not seq:\n            return []\n        return list(dict.fromkeys(seq))\n"), None)
R.mutant("benign-pure-many-rows-explicit-loop", RES,
         sub("                return [single_row(row) for row in rows]\n",
             "                out = []\n                for row in rows:\n                    out.append(single_row(row))\n                return out\n"), None)
R.mutant("benign-compiled-many-rows-local-alias", RES,
         sub("                    row: object = single_row(rows[i])\n", "                    make = single_row\n                    row: object = make(rows[i])\n"), None)
R.mutant("benign-caller-index-list-from-generator", RES,
         sub("            proc_valid = tuple(\n                [i for i, p in enumerate(processors) if p is not None]\n            )\n",
             "            proc_valid = tuple(\n                pos for pos, fn in enumerate(processors) if fn is not None\n            )\n"), None)

# ---- rob-H2: shape variants (enumerate / ternary in the pure loop, swapped arms, aliases of builtins, index list built by a loop, locals for bint results and C-typed sizes); benign must stay silent
R.mutant('benign-row-pure-apply-enumerate', 'engine/_row_cy.py',
         sub('        res: List[Any] = list(data)\n        proc_size = len(proc)\n        # TODO: would be nice to do this only on the fist row\n        assert len(res) == proc_size\n        for i in range(proc_size):\n            p = proc[i]\n            if p is not None:\n                res[i] = p(res[i])\n        return tuple(res)\n',
             '        res: List[Any] = list(data)\n        # TODO: would be nice to do this only on the fist row\n        assert len(res) == len(proc)\n        for i, p in enumerate(proc):\n            if p is None:\n                continue\n            res[i] = p(res[i])\n        return tuple(res)\n'), None)
R.mutant('benign-row-pure-apply-ternary-in-loop', 'engine/_row_cy.py',
         sub('        res: List[Any] = list(data)\n        proc_size = len(proc)\n        # TODO: would be nice to do this only on the fist row\n        assert len(res) == proc_size\n        for i in range(proc_size):\n            p = proc[i]\n            if p is not None:\n                res[i] = p(res[i])\n        return tuple(res)\n',
             '        res: List[Any] = list(data)\n        proc_size = len(proc)\n        # TODO: would be nice to do this only on the fist row\n        assert len(res) == proc_size\n        for i in range(proc_size):\n            p = proc[i]\n            value = res[i]\n            res[i] = p(value) if p is not None else value\n        return tuple(res)\n'), None)
R.mutant('benign-row-set-attrs-arms-swapped', 'engine/_row_cy.py',
         sub('        if cython.compiled:\n            # cython does not use __setattr__\n            self._parent = parent\n            self._key_to_index = key_to_index\n            self._data = data\n        else:\n            # python does, so use object.__setattr__\n            object.__setattr__(self, "_parent", parent)\n            object.__setattr__(self, "_key_to_index", key_to_index)\n            object.__setattr__(self, "_data", data)\n',
             '        if not cython.compiled:\n            # python uses __setattr__, so go through object.__setattr__\n            setter = object.__setattr__\n            setter(self, "_parent", parent)\n            setter(self, "_data", data)\n            setter(self, "_key_to_index", key_to_index)\n        else:\n            # cython does not use __setattr__\n            self._parent = parent\n            self._key_to_index = key_to_index\n            self._data = data\n'), None)
R.mutant('benign-result-pure-apply-two-locals', 'engine/_result_cy.py',
         sub('        res = list(data)\n        for i in proc_valid:\n            res[i] = proc[i](res[i])\n        return tuple(res)\n',
             '        res = list(data)\n        for pos in proc_valid:\n            fn = proc[pos]\n            raw = res[pos]\n            res[pos] = fn(raw)\n        out = tuple(res)\n        return out\n'), None)
R.mutant('benign-result-pure-many-rows-map', 'engine/_result_cy.py',
         sub('                return [single_row(row) for row in rows]\n',
             '                return list(map(single_row, rows))\n'), None)
R.mutant('benign-result-compiled-many-rows-inline-size', 'engine/_result_cy.py',
         sub('                size: cython.Py_hash_t = len(rows)\n                i: cython.Py_ssize_t\n                result: list = PyList_New(size)\n                for i in range(size):\n                    row: object = single_row(rows[i])\n',
             '                n_rows: cython.Py_hash_t = len(rows)\n                i: cython.Py_ssize_t\n                result: list = PyList_New(n_rows)\n                for i in range(n_rows):\n                    raw = rows[i]\n                    row: object = single_row(raw)\n'), None)
R.mutant('benign-result-caller-valid-indexes-by-loop', 'engine/_result_cy.py',
         sub('            proc_valid = tuple(\n                [i for i, p in enumerate(processors) if p is not None]\n            )\n',
             '            valid = []\n            for i, p in enumerate(processors):\n                if p is not None:\n                    valid.append(i)\n            proc_valid = tuple(valid)\n'), None)
R.mutant('benign-result-caller-valid-indexes-inverted-filter', 'engine/_result_cy.py',
         sub('            proc_valid = tuple(\n                [i for i, p in enumerate(processors) if p is not None]\n            )\n',
             '            proc_valid = tuple(\n                i for i, p in enumerate(processors) if not (p is None)\n            )\n'), None)
R.mutant('benign-unique-list-pure-explicit-dict', 'util/_collections_cy.py',
         sub('    else:\n        return list(dict.fromkeys(seq))\n',
             '    else:\n        ordered = dict.fromkeys(seq)\n        return list(ordered)\n'), None)
R.mutant('benign-unique-list-compiled-loop', 'util/_collections_cy.py',
         sub('        seen: Set[_T] = set()\n        return [x for x in seq if x not in seen and not set.add(seen, x)]\n',
             '        seen: Set[_T] = set()\n        out = []\n        for x in seq:\n            if x in seen:\n                continue\n            set.add(seen, x)\n            out.append(x)\n        return out\n'), None)
R.mutant('benign-bint-return-via-local', 'util/_collections_cy.py',
         sub('        return self._members.keys() <= other._members.keys()',
             '        covered = self._members.keys() <= other._members.keys()\n        return covered'), None)
R.mutant('row-pure-apply-enumerate-skips-falsy-processor', 'engine/_row_cy.py',
         sub('        res: List[Any] = list(data)\n        proc_size = len(proc)\n        # TODO: would be nice to do this only on the fist row\n        assert len(res) == proc_size\n        for i in range(proc_size):\n            p = proc[i]\n            if p is not None:\n                res[i] = p(res[i])\n        return tuple(res)\n',
             '        res: List[Any] = list(data)\n        assert len(res) == len(proc)\n        for i, p in enumerate(proc):\n            if not p:\n                continue\n            res[i] = p(res[i])\n        return tuple(res)\n'), 'C55-R4')
R.mutant('caller-valid-indexes-loop-loses-none-filter', 'engine/_result_cy.py',
         sub('            proc_valid = tuple(\n                [i for i, p in enumerate(processors) if p is not None]\n            )\n',
             '            valid = []\n            for i, p in enumerate(processors):\n                valid.append(i)\n            proc_valid = tuple(valid)\n'), 'C55-R5')
R.mutant('bint-local-holds-object', 'util/_collections_cy.py',
         sub('        return self._members.keys() <= other._members.keys()',
             '        covered = other._members or self._members\n        return covered'), 'C55-R3')
R.mutant('ctyped-local-from-untyped-element-local', 'engine/_result_cy.py',
         sub('        flag: cython.char = _FLAG_SIMPLE\n',
             '        first = metadata._keys[0]\n        flag: cython.char = first\n'), 'C55-R3')
R.mutant('benign-ctyped-local-from-untyped-len-local', 'engine/_result_cy.py',
         sub('        proc_size: cython.Py_ssize_t = len(processors)\n',
             '        n_processors = len(processors)\n        proc_size: cython.Py_ssize_t = n_processors\n'), None)
R.mutant('benign-all-cython-modules-via-local-merged-imports', 'util/_has_cython.py',
         sub('    from ..engine import _processors_cy\n    from ..engine import _result_cy\n    from ..engine import _row_cy\n    from ..engine import _util_cy as engine_util\n    from ..sql import _util_cy as sql_util\n\n    return (\n        _collections_cy,\n        _immutabledict_cy,\n        _processors_cy,\n        _result_cy,\n        _row_cy,\n        engine_util,\n        sql_util,\n    )\n',
             '    from ..engine import _processors_cy, _result_cy, _row_cy\n    from ..engine import _util_cy as engine_util\n    from ..sql import _util_cy as sql_util\n\n    modules = [\n        _collections_cy,\n        _immutabledict_cy,\n        _processors_cy,\n        _result_cy,\n        _row_cy,\n        engine_util,\n        sql_util,\n    ]\n    return tuple(modules)\n'), None)
R.mutant('all-cython-modules-local-list-misses-row', 'util/_has_cython.py',
         sub('    return (\n        _collections_cy,\n        _immutabledict_cy,\n        _processors_cy,\n        _result_cy,\n        _row_cy,\n        engine_util,\n        sql_util,\n    )\n',
             '    modules = [\n        _collections_cy,\n        _immutabledict_cy,\n        _processors_cy,\n        _result_cy,\n        engine_util,\n        sql_util,\n    ]\n    return tuple(modules)\n'), 'C55-R2')
R.mutant('benign-many-rows-arms-swapped', 'engine/_result_cy.py',
         sub('        if cython.compiled:\n\n            def many_rows(rows: Sequence[Any], /) -> list[Any]:\n                size: cython.Py_hash_t = len(rows)\n                i: cython.Py_ssize_t\n                result: list = PyList_New(size)\n                for i in range(size):\n                    row: object = single_row(rows[i])\n                    Py_INCREF(row)\n                    PyList_SET_ITEM(result, i, row)\n                return result\n\n        else:\n\n            def many_rows(rows: Sequence[Any], /) -> list[Any]:\n                return [single_row(row) for row in rows]\n',
             '        if not cython.compiled:\n\n            def many_rows(rows: Sequence[Any], /) -> list[Any]:\n                return [single_row(row) for row in rows]\n\n        else:\n\n            def many_rows(rows: Sequence[Any], /) -> list[Any]:\n                size: cython.Py_hash_t = len(rows)\n                i: cython.Py_ssize_t\n                result: list = PyList_New(size)\n                for i in range(size):\n                    row: object = single_row(rows[i])\n                    Py_INCREF(row)\n                    PyList_SET_ITEM(result, i, row)\n                return result\n'), None)
R.mutant('benign-row-cimports-merged', 'engine/_row_cy.py',
         sub('    from cython.cimports.cpython import PyTuple_New\n    from cython.cimports.cpython import Py_INCREF\n    from cython.cimports.cpython import PyTuple_SET_ITEM\n',
             '    from cython.cimports.cpython import (\n        PyTuple_New,\n        Py_INCREF,\n        PyTuple_SET_ITEM,\n    )\n'), None)
R.mutant('benign-row-compiled-apply-continue-and-locals', 'engine/_row_cy.py',
         sub('            p = proc[i]\n            if p is not None:\n                value = p(data[i])\n            else:\n                value = data[i]\n            Py_INCREF(value)\n            PyTuple_SET_ITEM(res, i, value)\n        return res\n',
             '            p = proc[i]\n            value = data[i]\n            if p is not None:\n                value = p(value)\n            Py_INCREF(value)\n            PyTuple_SET_ITEM(res, i, value)\n        return res\n'), None)
R.mutant('benign-row-init-ternary-unrolled', 'engine/_row_cy.py',
         sub('        self._set_attrs(\n            parent,\n            key_to_index,\n            (\n                _apply_processors(processors, data)\n                if processors is not None\n                else data if isinstance(data, tuple) else tuple(data)\n            ),\n        )\n',
             '        if processors is not None:\n            row_data = _apply_processors(processors, data)\n        elif isinstance(data, tuple):\n            row_data = data\n        else:\n            row_data = tuple(data)\n        self._set_attrs(parent, key_to_index, row_data)\n'), None)
R.mutant('benign-is-contiguous-test-inverted-continue', 'engine/_util_cy.py',
         sub('        if prev != curr - 1:\n            return False\n    return True\n',
             '        if prev == curr - 1:\n            continue\n        return False\n    return True\n'), None)
R.mutant('benign-tuplegetter-de-morgan', 'engine/_util_cy.py',
         sub('    if len(indexes) == 1 or _is_contiguous(indexes):\n        # slice form is faster but returns a list if input is list\n        max_index = indexes[-1]\n        return operator.itemgetter(slice(indexes[0], max_index + 1))\n    else:\n        return operator.itemgetter(*indexes)\n',
             '    if len(indexes) != 1 and not _is_contiguous(indexes):\n        return operator.itemgetter(*indexes)\n    else:\n        # slice form is faster but returns a list if input is list\n        max_index = indexes[-1]\n        return operator.itemgetter(slice(indexes[0], max_index + 1))\n'), None)
R.mutant('benign-is-contiguous-result-local', 'engine/_util_cy.py',
         sub('        if prev != curr - 1:\n            return False\n    return True\n',
             '        if prev != curr - 1:\n            contiguous = False\n            return contiguous\n    return True\n'), None)

# ---- str2-x (round-2 seeds): keyed lookups in a dict-like parameter (`self` of a Dict subclass) read as lookups
_GET_ANON = (
    "        idself: int = _get_id(obj)\n"
    "        if idself in self_dict:\n"
    "            return self_dict[idself], True\n"
    "        else:\n"
    "            return self._add_missing(idself), False\n"
)
R.mutant("seed-pure-get-anon-tests-truth-of-looked-up-index", SQLU,
         sub(_GET_ANON,
             "        idself: int = _get_id(obj)\n"
             "        if cython.compiled:\n"
             "            if idself in self_dict:\n"
             "                return self_dict[idself], True\n"
             "        else:\n"
             "            val = self_dict.get(idself)\n"
             "            if val:\n"
             "                return val, True\n"
             "        return self._add_missing(idself), False\n"), "C55-R4")
R.mutant("pure-get-anon-falsy-index-re-registered-early-return", SQLU,
         sub(_GET_ANON,
             "        idself: int = _get_id(obj)\n"
             "        if not cython.compiled:\n"
             "            found = self_dict.get(idself, None)\n"
             "            if not found:\n"
             "                return self._add_missing(idself), False\n"
             "            return found, True\n"
             "        if idself in self_dict:\n"
             "            return self_dict[idself], True\n"
             "        else:\n"
             "            return self._add_missing(idself), False\n"), "C55-R4")
R.mutant("benign-pure-get-anon-single-lookup-tested-against-none", SQLU,
         sub(_GET_ANON,
             "        idself: int = _get_id(obj)\n"
             "        if cython.compiled:\n"
             "            if idself in self_dict:\n"
             "                return self_dict[idself], True\n"
             "        else:\n"
             "            val = self_dict.get(idself)\n"
             "            if val is not None:\n"
             "                return val, True\n"
             "        return self._add_missing(idself), False\n"), None)
R.mutant("benign-pure-get-anon-none-default-inverted-arms-swapped", SQLU,
         sub(_GET_ANON,
             "        idself: int = _get_id(obj)\n"
             "        if not cython.compiled:\n"
             "            found = self_dict.get(idself, None)\n"
             "            if found is None:\n"
             "                return self._add_missing(idself), False\n"
             "            return found, True\n"
             "        else:\n"
             "            if idself not in self_dict:\n"
             "                return self._add_missing(idself), False\n"
             "            return self_dict[idself], True\n"), None)
R.mutant("benign-pure-get-anon-walrus-lookup", SQLU,
         sub(_GET_ANON,
             "        idself: int = _get_id(obj)\n"
             "        if cython.compiled:\n"
             "            if idself in self_dict:\n"
             "                return self_dict[idself], True\n"
             "            return self._add_missing(idself), False\n"
             "        if (val := self_dict.get(idself)) is not None:\n"
             "            return val, True\n"
             "        return self._add_missing(idself), False\n"), None)
# round-2 seed 2 (`_row_cy._apply_processors` reuses a list row in place) is the mutant `pure-row-apply-processors-in-place`
# above; its behaviour-preserving twins copy on every path
R.mutant("benign-pure-row-apply-processors-list-copied-by-slice", ROW,
         sub("        res: List[Any] = list(data)\n        proc_size = len(proc)\n",
             "        res: List[Any] = data[:] if type(data) is list else list(data)\n        proc_size = len(proc)\n"), None)
R.mutant("benign-pure-row-apply-processors-copy-by-unpacking", ROW,
         sub("        res: List[Any] = list(data)\n        proc_size = len(proc)\n",
             "        row_values = [*data]\n        res: List[Any] = row_values\n        proc_size = len(proc)\n"), None)
