"""C34 -- The identity map holds at most one object per row (ownership + guarded insert)."""

from __future__ import annotations

import ast
from typing import Dict, List, Set, Tuple

from ..astutil import ancestors, block_of, calls_in, dotted, guard_atoms, lexical_guards, name_stores, test_atoms, unparse, walk_local, walk_stmts
from ..cfg import no_exc
from ..report import Registry, chain, sub
from ._helpers_rules_d import call_nodes, callee_is, guard_atom_set, kw, qualname
from ._helpers_rob_B2 import (bind_args, bool_binds, expand, helper_key_stores, is_bound_method, key_store_helpers, module_functions_by_name, references,
                              resolved_atom_set, single_binds)

R = Registry(
    "C34",
    title="The identity map holds at most one object per row",
    decides=(
        "_WeakInstanceDict._dict is mutated only by the enumerated methods of orm/identity.py; add() stores a state "
        "only after refusing a different live state under the same key, replace() releases the state it overwrites, "
        "every store/removal is paired with the incoming/removed bookkeeping; the loader constructs a new instance "
        "only when the identity lookup for the row's key failed and registers it under that same key; Session.get "
        "reaches the database only on an identity-map miss or when populate_existing / always_refresh / "
        "with_for_update demand it, and an identity hit is refreshed only when expired; wherever orm/ writes a state's key, "
        "the entry is removed under the key it was registered with (discard < key store < re-registration; a key is only "
        "removed after the state left the map); an identity token travels with the primary key (forwarded by every function "
        "that accepts one, components [1] and [2] of one key passed together, compared with None only); only states attached "
        "to the session are registered in its identity map; a state's identity_token is the token of its key: the key re-computed from "
        "a state ends in state.identity_token, and wherever orm/ (InstanceState's own pickling included) stores a key that is not re-computed "
        "from the state's own token, every path through the store also sets state.identity_token from that key."
    ),
    not_decided="object identity across arbitrary histories (values of primary keys, merges of unrelated keys); identity tokens of "
                "secondary loads on a plain Session (selectin polymorphic / selectinload / lazy loads run without the parent's token).",
)

IDENT = "orm/identity.py"
SESSION = "orm/session.py"
LOADING = "orm/loading.py"
WID = f"{IDENT}::_WeakInstanceDict"

DICT_MUTATORS = {"pop", "popitem", "clear", "update", "setdefault", "__setitem__", "__delitem__"}

# methods of the identity map classes that may change `_dict` (frozen today, with reason)
DICT_OWNERS = {
    "IdentityMap.__init__": "creates the empty map",
    "_WeakInstanceDict.replace": "overwrite, releases the previous state first",
    "_WeakInstanceDict.add": "guarded insert",
    "_WeakInstanceDict._add_unpresent": "inlined insert used by the loader after a failed lookup",
    "_WeakInstanceDict._fast_discard": "weakref callback of a collected object",
    "_WeakInstanceDict.safe_discard": "removal of exactly this state",
}
# store / removal sites that inline the bookkeeping instead of calling _manage_*_state
INLINE_BOOKKEEPING = {
    "_WeakInstanceDict._add_unpresent": "inlines _manage_incoming_state: a state just constructed by the loader cannot be modified",
    "_WeakInstanceDict._fast_discard": "inlines _manage_removed_state: the object was garbage collected, a modified state is strongly referenced "
                                       "and cannot get here; InstanceState._cleanup drops _instance_dict itself",
}


def _dict_mutations(tree, pm):
    """[(receiver of ._dict, kind, node, qualname)] for every in-place change of an attribute named `_dict`."""
    out = []
    for n in ast.walk(tree):
        recv = None
        kind = None
        if isinstance(n, ast.Subscript) and isinstance(n.ctx, (ast.Store, ast.Del)) and isinstance(n.value, ast.Attribute) and n.value.attr == "_dict":
            recv, kind = dotted(n.value.value), ("store" if isinstance(n.ctx, ast.Store) else "remove")
        elif isinstance(n, ast.Attribute) and n.attr == "_dict" and isinstance(n.ctx, (ast.Store, ast.Del)):
            recv, kind = dotted(n.value), "rebind"
        elif isinstance(n, ast.Call) and isinstance(n.func, ast.Attribute) and n.func.attr in DICT_MUTATORS and isinstance(n.func.value, ast.Attribute) and n.func.value.attr == "_dict":
            recv = dotted(n.func.value.value)
            kind = "remove" if n.func.attr in ("pop", "popitem", "clear", "__delitem__") else "store"
        if kind:
            out.append((recv, kind, n, qualname(pm, n)))
    return out


@R.rule("C34-R1", floor=7, template="T-OWN",
        desc="the identity map's _dict is mutated only inside orm/identity.py by the enumerated methods; nothing "
             "else in the library reaches into <identity map>._dict")
def r1(ctx):
    base = ctx.index.cls(f"{IDENT}::IdentityMap")
    imap_classes = {c.name for c in ctx.index.subclasses(base)} | {"IdentityMap"}
    m = ctx.index.module(IDENT)
    pm = m.parents()
    seen = {}
    for recv, kind, n, q in _dict_mutations(m.tree, pm):
        seen.setdefault(q, []).append(f"{kind}@{n.lineno}")
    for q, sites in sorted(seen.items()):
        ctx.check(q in DICT_OWNERS, f"{IDENT}::{q}:mutates-_dict", f"{q} changes the identity map's _dict ({sites}) but is not an enumerated owner",
                  DICT_OWNERS.get(q, ""), f"{m.path}")
    foreign = []
    for mod in ctx.index.all_modules():
        if mod.relpath == IDENT or "_dict" not in mod.source:
            continue
        pmm = mod.parents()
        for recv, kind, n, q in _dict_mutations(mod.tree, pmm):
            cls = q.split(".")[0]
            if recv != "self" or cls in imap_classes:
                # `self._dict` of an unrelated class (e.g. clsregistry) is not an identity map
                foreign.append(f"{mod.relpath}::{q} ({kind} via {recv}._dict, line {n.lineno})")
    ctx.check(not foreign, f"{IDENT}::_WeakInstanceDict:_dict-not-touched-elsewhere",
              f"identity-map storage is changed outside orm/identity.py: {foreign}", "no foreign writer of <map>._dict")


def _store_nodes(g, kind="store"):
    out = []
    for n in g.nodes:
        if n.kind != "stmt" or n.stmt is None:
            continue
        hit = False
        for x in ast.walk(n.stmt):
            if kind == "store" and isinstance(x, ast.Subscript) and isinstance(x.ctx, ast.Store) and isinstance(x.value, ast.Attribute) and x.value.attr == "_dict":
                hit = True
            if kind == "remove" and ((isinstance(x, ast.Subscript) and isinstance(x.ctx, ast.Del) and isinstance(x.value, ast.Attribute) and x.value.attr == "_dict")
                                     or (isinstance(x, ast.Call) and isinstance(x.func, ast.Attribute) and x.func.attr in ("pop", "popitem", "clear") and isinstance(x.func.value, ast.Attribute) and x.func.value.attr == "_dict")):
                hit = True
        if hit:
            out.append(n.id)
    return out


def _bound_from(fn_node, pred) -> Set[str]:
    out = set()
    for st in walk_stmts(fn_node.body):
        if isinstance(st, ast.Assign) and pred(st.value):
            for t in st.targets:
                if isinstance(t, ast.Name):
                    out.add(t.id)
    return out


def _is_dict_lookup(v) -> bool:
    """`<x>._dict[k]` or `<x>._dict.get(k)` / `.get(k, None)` (possibly inside typing.cast)."""
    if isinstance(v, ast.Call) and callee_is(v, "cast") and len(v.args) == 2:
        v = v.args[1]
    if (isinstance(v, ast.Call) and isinstance(v.func, ast.Attribute) and v.func.attr == "get" and isinstance(v.func.value, ast.Attribute)
            and v.func.value.attr == "_dict" and 1 <= len(v.args) <= 2 and not v.keywords and (len(v.args) == 1 or (isinstance(v.args[1], ast.Constant) and v.args[1].value is None))):
        return True
    return isinstance(v, ast.Subscript) and isinstance(v.value, ast.Attribute) and v.value.attr == "_dict"


def _present_edges(g, fn, names):
    """edge_ok: non-exceptional edges, minus the outcome `<name> is None` of a test whose whole (resolved) condition is that
    comparison -- i.e. the paths on which the looked-up entry exists."""
    binds = bool_binds(fn)
    barred = set()
    for t in g.nodes:
        if t.kind != "test":
            continue
        at = test_atoms(expand(t.stmt.test, binds), True)
        if len(at) == 1 and any(at[0][0] == f"{n} is None" for n in names):
            barred.add((t.id, "true" if at[0][1] else "false"))
    return lambda a, b, lab: lab != "exc" and (a, lab) not in barred


@R.rule("C34-R2", floor=3, template="T-GUARD",
        desc="add(): a different live state under the same key raises before the store; replace(): the overwritten "
             "state is released first; no other method stores a state under a possibly occupied key")
def r2(ctx):
    cls = ctx.index.cls(WID)
    # --- add
    f = ctx.method(WID, "add")
    g = ctx.cfg(f)
    state_p = f.params[1]
    existing = _bound_from(f.node, _is_dict_lookup)
    objs = {t for t in _bound_from(f.node, lambda v: isinstance(v, ast.Call) and isinstance(v.func, ast.Attribute) and v.func.attr == "obj" and isinstance(v.func.value, ast.Name) and v.func.value.id in existing)}
    raises = g.find(lambda n: n.kind == "stmt" and isinstance(n.stmt, ast.Raise))
    good = False
    for r in raises:
        atoms = guard_atom_set(g, r)
        if any((f"{e} is {state_p}", False) in atoms for e in existing) and any((f"{o} is None", False) in atoms for o in objs):
            good = True
    stores = _store_nodes(g)
    ctx.require(stores, "add() never stores into _dict")
    # the store is unreachable from the branch "different state and object alive"
    leak = False
    for t in g.nodes:
        if t.kind == "test" and any(unparse(t.stmt.test) == f"{o} is not None" for o in objs):
            trues = [b for b, lab in g.succ[t.id] if lab == "true"]
            if set(stores) & g.reachable(trues):
                leak = True
    ctx.check(good and not leak, f"{f.key}:refuses-second-live-instance",
              "add() can store a state although a different state with a live object already holds the key",
              "different live state -> InvalidRequestError; store unreachable from that branch", f.loc)
    # --- replace
    f = ctx.method(WID, "replace")
    g = ctx.cfg(f)
    state_p = f.params[1]
    existing = _bound_from(f.node, _is_dict_lookup)
    binds = g.find(lambda n: n.kind == "stmt" and isinstance(n.stmt, ast.Assign) and _is_dict_lookup(n.stmt.value))
    rel = call_nodes(g, lambda c: callee_is(c, "self._manage_removed_state") and c.args and isinstance(c.args[0], ast.Name) and c.args[0].id in existing)
    stores = _store_nodes(g)
    ctx.require(binds and stores, "replace() does not look up / store into _dict")
    rel_ok = bool(rel) and all(any((f"{e} is {state_p}", False) in guard_atom_set(g, n) for e in existing) for n in rel)
    w = g.must_pass(binds, stores, rel, edge_ok=_present_edges(g, f.node, existing))
    ctx.check(rel_ok and w is None, f"{f.key}:releases-overwritten-state",
              "replace() can overwrite a different state without _manage_removed_state(existing)", "existing is not state -> _manage_removed_state(existing) before the store", f.loc, w)
    # --- no other storing method
    storing = sorted(name for name, m in cls.methods.items() if _store_nodes(ctx.cfg(m)))
    allowed = {"add": "guarded", "replace": "releases the old state", "_add_unpresent": "caller proved absence (C34-R4)"}
    extra = [s for s in storing if s not in allowed]
    ctx.check(not extra, f"{WID}:storing-methods", f"methods {extra} store states into _dict without the add()/replace() discipline", f"storing methods: {storing}")


@R.rule("C34-R3", floor=5, template="T-PATH",
        desc="every store into _dict is followed by _manage_incoming_state(state), every removal by "
             "_manage_removed_state(state) (or the documented inline form)")
def r3(ctx):
    cls = ctx.index.cls(WID)
    for name, m in sorted(cls.methods.items()):
        g = ctx.cfg(m)
        q = f"_WeakInstanceDict.{name}"
        for kind, manage in (("store", "_manage_incoming_state"), ("remove", "_manage_removed_state")):
            sites = _store_nodes(g, kind)
            if not sites:
                continue
            key = f"{m.key}:{kind}-bookkeeping"
            if q in INLINE_BOOKKEEPING:
                if kind == "store":
                    inl = [n.id for n in g.nodes if n.kind == "stmt" and isinstance(n.stmt, ast.Assign) and any(isinstance(t, ast.Attribute) and t.attr == "_instance_dict" for t in n.stmt.targets)
                           and dotted(n.stmt.value) == "self._wr"]
                    w = g.must_pass(sites, [g.exit], inl, edge_ok=no_exc)
                    ctx.check(w is None and bool(inl), key, "inlined insert does not link state._instance_dict to this map", INLINE_BOOKKEEPING[q], m.loc, w)
                else:
                    # removal of exactly the state that is stored (identity test), nothing else to verify here
                    ok_id = all(any(a.endswith(f" is {m.params[1]}") and p for a, p in guard_atom_set(g, n)) for n in sites)
                    ctx.check(ok_id, key, "inlined discard removes an entry that may belong to a different state", INLINE_BOOKKEEPING[q], m.loc)
                continue
            calls = call_nodes(g, lambda c, manage=manage: callee_is(c, f"self.{manage}"))
            w = g.must_pass(sites, [g.exit], calls, edge_ok=no_exc)
            ctx.check(w is None and bool(calls), key, f"a {kind} into _dict is not followed by {manage}() on every normal path", f"followed by {manage}()", m.loc, w)


def _nested(fn_node, name):
    for n in ast.walk(fn_node):
        if isinstance(n, (ast.FunctionDef, ast.AsyncFunctionDef)) and n.name == name and n is not fn_node:
            return n
    return None


@R.rule("C34-R4", floor=3, template="T-GUARD",
        desc="loading._instance_processor: a new instance is constructed only when the session's identity map has no "
             "object for the row's identity key, and it is registered in that map under that same key")
def r4(ctx):
    outer = ctx.func(f"{LOADING}::_instance_processor")
    inst = _nested(outer.node, "_instance")
    ctx.require(inst is not None, "_instance_processor has no nested _instance")
    g = ctx.cfg(inst)
    imaps = {n for n, v, st in name_stores(outer.node) if v is not None and (dotted(v) or "").endswith("session.identity_map")}
    ctx.require(imaps, "_instance_processor does not bind the session identity map")
    lookups = []  # (local, key expr text)
    for n, v, st in name_stores(inst):
        if isinstance(v, ast.Call) and isinstance(v.func, ast.Attribute) and v.func.attr in ("get", "fast_get_state") and dotted(v.func.value) in imaps and v.args:
            lookups.append((n, unparse(v.args[0])))
    ctx.require(lookups, "_instance has no identity-map lookup")
    new_nodes = call_nodes(g, lambda c: callee_is(c, "new_instance"))
    ctx.require(new_nodes, "_instance never constructs an instance")
    for i, n in enumerate(new_nodes):
        atoms = guard_atom_set(g, n)
        good = any((f"{loc} is None", True) in atoms for loc, k in lookups)
        ctx.check(good, f"{outer.key}._instance:new-instance-only-on-miss" + (f":{i}" if i else ""),
                  f"a new instance is constructed without the identity lookup having returned None (guards {sorted(atoms)})",
                  "guarded by `<lookup result> is None`", f"{outer.module.path}:{g.node(n).lineno}")
    regs = call_nodes(g, lambda c: isinstance(c.func, ast.Attribute) and c.func.attr in ("_add_unpresent", "add", "replace") and dotted(c.func.value) in imaps)
    good = bool(regs)
    same_key = bool(regs)
    for n in regs:
        atoms = guard_atom_set(g, n)
        good = good and any((f"{loc} is None", True) in atoms for loc, k in lookups)
        c = [c for c in calls_in(g.node(n).stmt) if isinstance(c.func, ast.Attribute) and c.func.attr in ("_add_unpresent", "add", "replace")][0]
        if c.func.attr == "_add_unpresent":
            same_key = same_key and len(c.args) == 2 and any(unparse(c.args[1]) == k for loc, k in lookups)
    # registration happens on every normal path after construction
    w = g.must_pass(new_nodes, [g.exit], regs, edge_ok=no_exc)
    ctx.check(good and w is None, f"{outer.key}._instance:registered-on-miss-branch",
              "the constructed instance is not registered in the session identity map on the same branch", "registered via _add_unpresent on the miss branch", outer.loc, w)
    keys_set = [st for st in walk_stmts(inst.body) if isinstance(st, ast.Assign) and any(isinstance(t, ast.Attribute) and t.attr == "key" for t in st.targets)]
    kb = single_binds(inst)  # `new_key = identitykey; state.key = new_key` is the same key
    same_key = same_key and bool(keys_set) and all(any(unparse(expand(st.value, kb)) in (k, unparse(expand(ast.parse(k, mode="eval").body, kb))) for loc, k in lookups) for st in keys_set)
    ctx.check(same_key, f"{outer.key}._instance:same-key", "the key looked up, the key given to the state and the key registered differ", "lookup key == state.key == registered key", outer.loc)


@R.rule("C34-R5", floor=4, template="T-GUARD",
        desc="Session._get_impl: the identity map is consulted unless populate_existing / always_refresh / "
             "with_for_update; a hit returns without the database; get_from_identity refreshes only expired hits")
def r5(ctx):
    f = ctx.func(f"{SESSION}::Session._get_impl")
    g = ctx.cfg(f)
    look = g.find(lambda n: n.kind == "stmt" and isinstance(n.stmt, ast.Assign) and isinstance(n.stmt.value, ast.Call) and callee_is(n.stmt.value, "self._identity_lookup"))
    ctx.require(look, "_get_impl does not call self._identity_lookup")
    loc_name = g.node(look[0]).stmt.targets[0].id
    load = call_nodes(g, lambda c: isinstance(c.func, ast.Name) and c.func.id in f.params and c.func.id.endswith("load_fn"))
    ctx.require(load, "_get_impl does not call the db_load_fn parameter")
    want = {("populate_existing", False), ("mapper.always_refresh", False), ("for_update_arg is None", True)}
    binds = bool_binds(f.node)
    other = []
    found = set()
    for t, pol in g.edge_guards(look[0]):
        atoms = set(test_atoms(expand(t, binds), pol))  # a guard named as a boolean local is the condition it was bound from
        if atoms <= want:
            found |= atoms  # the documented condition, possibly split over nested ifs / early exits
            continue
        # any other dominating test must be input validation: its opposite outcome never reaches the load
        tn = [n.id for n in g.nodes if n.kind == "test" and n.stmt.test is t]
        opp = [b for n in tn for b, lab in g.succ[n] if lab == ("false" if pol else "true")]
        if set(load) & g.reachable(opp):
            extra = sorted((a if p else f"not ({a})") for a, p in atoms - want)
            found |= atoms & want
            other.append(" and ".join(extra) if atoms & want and extra else unparse(t))  # name the added reason, not the whole test
    inner_ok = found == want
    ctx.check(inner_ok and not other, f"{f.key}:lookup-skipped-only-for-documented-reasons",
              f"the identity map is bypassed for other reasons than populate_existing / always_refresh / with_for_update (extra conditions: {other}; documented test found: {inner_ok})",
              "identity lookup unless populate_existing / always_refresh / with_for_update", f.loc)
    # tests that decide hit / miss: their (resolved) condition is exactly `<lookup result> is None` in one polarity
    tests, hit_starts = [], []
    for t in g.nodes:
        if t.kind != "test":
            continue
        at = test_atoms(expand(t.stmt.test, binds), True)
        if len(at) == 1 and at[0][0] == f"{loc_name} is None":
            tests.append(t.id)
            hit_lab = "false" if at[0][1] else "true"
            hit_starts += [b for b, lab in g.succ[t.id] if lab == hit_lab]
    hit_leaks = bool(set(load) & g.reachable(hit_starts)) if hit_starts else False
    w = g.must_pass(look, load, tests, edge_ok=no_exc)
    ctx.check(bool(tests) and not hit_leaks and w is None, f"{f.key}:hit-returns-without-database",
              "an identity-map hit can still reach the database load", "hit -> return instance; load only on miss", f.loc, w)
    il = ctx.func(f"{SESSION}::Session._identity_lookup")
    calls = [c for c in calls_in(il.node) if callee_is(c, "get_from_identity")]
    keyloc = {n for n, v, st in name_stores(il.node) if isinstance(v, ast.Call) and callee_is(v, "identity_key_from_primary_key")}
    good = bool(calls) and all(len(c.args) >= 3 and isinstance(c.args[2], ast.Name) and c.args[2].id in keyloc and dotted(c.args[0]) == "self" for c in calls)
    ctx.check(good, f"{il.key}:delegates", "_identity_lookup does not look the mapper's identity key up in this session", "get_from_identity(self, mapper, identity_key_from_primary_key(...))", il.loc)
    gf = ctx.func(f"{LOADING}::get_from_identity")
    g = ctx.cfg(gf)
    refresh = call_nodes(g, lambda c: callee_is(c, "_load_expired"))
    ctx.require(refresh, "get_from_identity never refreshes")
    exp_ok = all(any(a.endswith(".expired") and p for a, p in guard_atom_set(g, n)) for n in refresh)
    rets = g.find(lambda n: n.kind == "stmt" and isinstance(n.stmt, ast.Return) and isinstance(n.stmt.value, ast.Name))
    inst_local = {n for n, v, st in name_stores(gf.node) if isinstance(v, ast.Call) and isinstance(v.func, ast.Attribute) and v.func.attr == "get" and (dotted(v.func.value) or "").endswith("identity_map")}
    direct = [r for r in rets if g.node(r).stmt.value.id in inst_local and g.witness([g.entry], [r], avoid=refresh) is not None]
    ctx.check(exp_ok and bool(direct), f"{gf.key}:refresh-only-when-expired",
              "get_from_identity emits SQL for a non-expired identity hit (or never returns the hit directly)", "returns the hit; _load_expired only under state.expired", gf.loc)


# ---------------------------------------------------------------------- C34-R6: entries leave under the key they were filed with
# The identity map finds a state's entry through `state.key` (safe_discard / discard / replace / add all read it).
# So every write of a state's key is ordered against the map operations on that state.
KEY_DISCARDS = ("safe_discard", "discard", "_fast_discard")
KEY_REGISTERS = ("replace", "add", "_add_unpresent")
# modules whose `<x>.key = ...` stores are on Column / MapperProperty / registry objects, never on an InstanceState
NOT_STATE_KEYS = {
    "orm/decl_base.py": "Column.key during the declarative scan",
    "orm/properties.py": "Column.key during the declarative scan",
    "orm/mapper.py": "Column.key / MapperProperty.key during configuration",
    "orm/decl_api.py": "declarative attribute keys",
    "orm/clsregistry.py": "registry entries",
}
# key stores on states that are not registered anywhere, justified by the CALLER (not visible in the function itself)
UNREGISTERED_BY_CALLER = {
    "orm/bulk_persistence.py::_bulk_insert": "Session._bulk_save_objects routes only states without a key to _bulk_insert (it groups on "
                                             "`state.key is not None`) and bulk operations never touch the identity map",
}


def _functions(tree):
    return [n for n in ast.walk(tree) if isinstance(n, (ast.FunctionDef, ast.AsyncFunctionDef))]


def _key_writes(fn) -> Dict[str, List[Tuple[ast.stmt, str]]]:
    """{state variable: [(statement, 'store' | 'remove')]} for `<name>.key = v` / `del <name>.key` in fn's own scope."""
    out: Dict[str, List[Tuple[ast.stmt, str]]] = {}
    for st in walk_stmts(fn.body):
        if isinstance(st, ast.Assign):
            kind = "remove" if (isinstance(st.value, ast.Constant) and st.value.value is None) else "store"
            tg = st.targets
        elif isinstance(st, ast.Delete):
            kind, tg = "remove", st.targets
        else:
            continue
        for t in tg:
            if isinstance(t, ast.Attribute) and t.attr == "key" and isinstance(t.value, ast.Name) and t.value.id not in ("self", "cls"):
                out.setdefault(t.value.id, []).append((st, kind))
    return out


def _imap_aliases(fn) -> Set[str]:
    return {n for n, v, st in name_stores(fn) if v is not None and (dotted(v) or "").endswith("identity_map")}


def _is_imap_recv(recv, imaps) -> bool:
    return (dotted(recv) or "").endswith("identity_map") or (isinstance(recv, ast.Name) and recv.id in imaps)


def _imap_op(c: ast.Call, methods, var: str, imaps) -> bool:
    return (isinstance(c.func, ast.Attribute) and c.func.attr in methods and _is_imap_recv(c.func.value, imaps)
            and len(c.args) >= 1 and isinstance(c.args[0], ast.Name) and c.args[0].id == var)


def _mentions(arg, var: str) -> bool:
    """`var` itself or a list/tuple/set display (possibly `[var] + more`) that contains it."""
    if isinstance(arg, ast.Name):
        return arg.id == var
    if isinstance(arg, (ast.List, ast.Tuple, ast.Set)):
        return any(_mentions(e, var) for e in arg.elts)
    if isinstance(arg, ast.BinOp) and isinstance(arg.op, ast.Add):
        return _mentions(arg.left, var) or _mentions(arg.right, var)
    return False


def _state_helpers(ctx):
    """One level of helper summaries, read off orm/session.py: {function name: (positional index of the parameter (self
    excluded) whose state(s) the function discards from / registers in the identity map)}.  A parameter counts when the map
    operation is applied to it or to the loop variable of a `for` over it."""
    m = ctx.index.module(SESSION)
    disc: Dict[str, Set[int]] = {}
    reg: Dict[str, Set[int]] = {}
    seen: Dict[str, int] = {}
    for f in ctx.index.all_functions(m):
        if f.type_only:
            continue
        seen[f.name] = seen.get(f.name, 0) + 1
        params = [p for p in f.params if p not in ("self", "cls")]
        imaps = _imap_aliases(f.node)
        over: Dict[str, str] = {}  # loop variable -> parameter iterated
        for n in walk_local(f.node):
            if isinstance(n, ast.For) and isinstance(n.target, ast.Name) and isinstance(n.iter, ast.Name) and n.iter.id in params:
                over[n.target.id] = n.iter.id
        for c in calls_in(f.node):
            for methods, table in ((KEY_DISCARDS, disc), (KEY_REGISTERS, reg)):
                if isinstance(c.func, ast.Attribute) and c.func.attr in methods and _is_imap_recv(c.func.value, imaps) and c.args and isinstance(c.args[0], ast.Name):
                    a = over.get(c.args[0].id, c.args[0].id)
                    if a in params:
                        table.setdefault(f.name, set()).add(params.index(a))
    amb = {n for n, k in seen.items() if k > 1}
    return ({n: v for n, v in disc.items() if n not in amb}, {n: v for n, v in reg.items() if n not in amb})


def _helper_op(c: ast.Call, table, var: str) -> bool:
    nm = c.func.attr if isinstance(c.func, ast.Attribute) else (c.func.id if isinstance(c.func, ast.Name) else None)
    if nm not in table:
        return False
    return any(i < len(c.args) and _mentions(c.args[i], var) for i in table[nm])


def _constructed_here(pm, st: ast.stmt, var: str) -> bool:
    """`var = instance_state(obj)` with `obj = <...>.new_instance()` earlier in the statement list that contains `st`."""
    par, fld, blk = block_of(pm, st)
    if not blk:
        return False
    objs, ok = set(), False
    for s_ in blk:
        if s_ is st:
            break
        if isinstance(s_, ast.Assign) and len(s_.targets) == 1 and isinstance(s_.targets[0], ast.Name) and isinstance(s_.value, ast.Call):
            if callee_is(s_.value, "new_instance"):
                objs.add(s_.targets[0].id)
            elif s_.targets[0].id == var:
                ok = callee_is(s_.value, "instance_state") and len(s_.value.args) == 1 and isinstance(s_.value.args[0], ast.Name) and s_.value.args[0].id in objs
    return ok


def _pass_bounds(g, pm, fn, st):
    """(start nodes, loop-head nodes) delimiting one pass of the innermost loop around `st` (entry when there is none)."""
    for a in ancestors(pm, st):
        if a is fn:
            break
        if isinstance(a, (ast.For, ast.While)):
            heads = g.nodes_for(a)
            return (heads or [g.entry]), heads
    return [g.entry], []


def _no_session_edges(g, fn, var: str):
    """Edge filter that forbids the outcome `the state has no session` of tests on a local bound from `_state_session(var)`."""
    sess = {n for n, v, st in name_stores(fn) if isinstance(v, ast.Call) and callee_is(v, "_state_session") and v.args and _mentions(v.args[0], var)}
    tests = {n.id for n in g.nodes if n.kind == "test" and isinstance(n.stmt.test, ast.Name) and n.stmt.test.id in sess}
    return (lambda a, b, lab: not (a in tests and lab == "false")), bool(tests)


def _removal_enabled_by(g, N, params) -> List[str]:
    """Parameters of the function whose truth dominates node N (e.g. to_transient)."""
    return sorted({a for a, pol in guard_atom_set(g, N) if pol and a in params})


def _callers_discard_first(ctx, fname: str, fparams: List[str], coll_param: str, flags: List[str], disc_tbl):
    """For a function that removes the key of the states in `coll_param` only when `flags` are true: every call site in
    orm/ that can pass a true flag must come after the states it passes were discarded from the identity map."""
    problems, n_sites = [], 0
    pos = [p for p in fparams if p not in ("self", "cls")]
    for m in ctx.index.all_modules():
        if not m.relpath.startswith("orm/") or fname not in m.source:
            continue
        pm = None
        for caller in _functions(m.tree):
            for c in calls_in(caller):
                nm = c.func.attr if isinstance(c.func, ast.Attribute) else (c.func.id if isinstance(c.func, ast.Name) else None)
                if nm != fname:
                    continue
                n_sites += 1
                can_enable = False
                for fl in flags:
                    v = kw(c, fl)
                    if v is None and fl in pos and pos.index(fl) < len(c.args):
                        v = c.args[pos.index(fl)]
                    if v is not None and not (isinstance(v, ast.Constant) and not v.value):
                        can_enable = True
                if not can_enable:
                    continue
                arg = c.args[pos.index(coll_param)] if pos.index(coll_param) < len(c.args) else kw(c, coll_param)
                g = ctx.cfg(caller)
                imaps = _imap_aliases(caller)
                site = [n for n in call_nodes(g, lambda x: x is c)]
                before = []
                if isinstance(arg, ast.Name):
                    for loop in [n for n in walk_local(caller) if isinstance(n, ast.For) and isinstance(n.target, ast.Name) and isinstance(n.iter, ast.Name) and n.iter.id == arg.id]:
                        if any(_imap_op(x, KEY_DISCARDS, loop.target.id, imaps) or _helper_op(x, disc_tbl, loop.target.id) for x in calls_in(loop)):
                            before.extend(g.nodes_for(loop))
                    before.extend(call_nodes(g, lambda x: _helper_op(x, disc_tbl, arg.id)))
                bad = [s_ for s_ in site if not before or g.always_preceded(s_, before) is not None]
                if bad or not site:
                    problems.append(f"{m.relpath}::{qualname(m.parents() if pm is None else pm, c)} calls {fname}({unparse(arg) if arg is not None else '?'}, {'/'.join(flags)}=...) "
                                    f"without first discarding those states from the identity map")
    return problems, n_sites


@R.rule("C34-R6", floor=9, template="T-PATH",
        desc="the identity map files and finds a state under state.key, so an entry is removed under the key it was "
             "registered with: in every function of orm/ that writes a state's key, a store on a possibly registered state "
             "is preceded (within one loop pass) by the discard of that state and followed by its re-registration, no "
             "discard runs after the store, and a key is only removed from a state that was taken out of the map first "
             "(one level of Session helpers, the callers of a flag-guarded removal and the call sites of a private helper that "
             "assigns the key of a state handed to it are followed)")
def r6(ctx):
    disc_tbl, reg_tbl = _state_helpers(ctx)
    ctx.require("_expunge_states" in disc_tbl, "Session._expunge_states is no longer recognised as discarding its states from the identity map")
    n_inst = 0
    for m in ctx.index.all_modules():
        if not m.relpath.startswith("orm/") or m.relpath in NOT_STATE_KEYS or ".key" not in m.source:
            continue
        pm = None
        # private helpers that re-key a state handed to them: a call of such a helper is a key store in the caller
        helpers = key_store_helpers(ctx, m, lambda c, v, f_: _imap_op(c, KEY_DISCARDS, v, _imap_aliases(f_)) or _helper_op(c, disc_tbl, v),
                                    lambda c, v, f_: _imap_op(c, KEY_REGISTERS, v, _imap_aliases(f_)) or _helper_op(c, reg_tbl, v),
                                    lambda g_, f_, n_: guard_atom_set(g_, n_))
        for fn in _functions(m.tree):
            writes = _key_writes(fn)
            via_helper = helper_key_stores(fn, helpers)
            if not writes and not via_helper:
                continue
            if pm is None:
                pm = m.parents()
            q = qualname(pm, fn)
            fkey = f"{m.relpath}::{q + '.' if q else ''}{fn.name}"
            ctx.functions_analysed.add(fkey)
            g = ctx.cfg(fn)
            imaps = _imap_aliases(fn)
            params = [a.arg for a in fn.args.posonlyargs + fn.args.args + fn.args.kwonlyargs]
            problems, wit, notes = [], None, []
            own = helpers.get(fn.name)
            own = own if own is not None and own.fn is fn and own.followed else None
            for var in sorted(set(writes) | set(via_helper)):
                sts = list(writes.get(var, []))
                disc = call_nodes(g, lambda c: _imap_op(c, KEY_DISCARDS, var, imaps) or _helper_op(c, disc_tbl, var))
                reg = call_nodes(g, lambda c: _imap_op(c, KEY_REGISTERS, var, imaps) or _helper_op(c, reg_tbl, var))
                # ---- calls of a helper that stores the key of `var`: discard < call < register, unless the helper does it itself
                for _, h, c in via_helper.get(var, []):
                    for N in call_nodes(g, lambda x: x is c):
                        st = g.node(N).stmt
                        txt = f"{h.fn.name}({var}, ...) [which assigns {h.param}.key]"
                        starts, heads = _pass_bounds(g, pm, fn, st)
                        atoms = guard_atom_set(g, N)
                        if (f"{var}.key is None", True) in atoms or (f"{var}.key", False) in atoms:
                            notes.append(f"`{txt}`: first key of a state that is not registered yet")
                            continue
                        d_oth = [x for x in disc if x != N]
                        r_oth = [x for x in reg if x != N]
                        if not h.discards_first:
                            w = g.witness(starts, [N], avoid=d_oth)
                            if w is not None or not d_oth:
                                problems.append(f"`{txt}` re-keys a state that may be registered in the identity map without discarding it first: "
                                                f"the entry filed under the previous key is never removed (one object under two identity keys)")
                                wit = wit or (g.describe_path(w) if w else None)
                            w = g.witness(r_oth, [N], avoid=list(heads) + d_oth)
                            if w is not None:
                                problems.append(f"`{var}` is registered before `{txt}` without a discard in between: it stays filed under the previous key")
                                wit = wit or g.describe_path(w)
                        if not h.registers_after and (not r_oth or g.witness([N], r_oth, avoid=heads) is None):
                            problems.append(f"after `{txt}` the state is not registered again under its new key")
                        w = g.witness([N], d_oth, avoid=heads)
                        if w is not None:
                            problems.append(f"the identity map discards `{var}` after `{txt}`: the lookup uses the NEW key, so the entry under the key "
                                            f"the state was registered with stays in the map")
                            wit = wit or g.describe_path(w)
                        notes.append(f"`{txt}`: " + ("helper discards first" if h.discards_first else "discarded before the call") + "; "
                                     + ("helper registers again" if h.registers_after else "registered again after the call"))
                delegated = own is not None and var == own.param  # what this helper leaves undone is checked at its call sites
                for st, kind in sts:
                    starts, heads = _pass_bounds(g, pm, fn, st)
                    for N in g.nodes_for(st):
                        atoms = guard_atom_set(g, N)
                        if kind == "store" and delegated and not ((f"{var}.key is None", True) in atoms or (f"{var}.key", False) in atoms):
                            n_sites = len(own.sites)
                            if own.discards_first:
                                w = g.witness(reg, [N], avoid=list(heads) + list(disc))
                                if w is not None:
                                    problems.append(f"`{var}` is registered before `{unparse(st)}` without a discard in between: it stays filed under the previous key")
                                    wit = wit or g.describe_path(w)
                            w = g.witness([N], disc, avoid=heads)
                            if w is not None:
                                problems.append(f"the identity map discards `{var}` after `{unparse(st)}`: the lookup uses the NEW key, so the entry under the key "
                                                f"the state was registered with stays in the map")
                                wit = wit or g.describe_path(w)
                            notes.append(f"`{unparse(st)}` in a helper: " + ("discard precedes the store here" if own.discards_first else f"the discard is checked at the {n_sites} call site(s)")
                                         + "; " + ("re-registered here" if own.registers_after else f"the re-registration is checked at the {n_sites} call site(s)"))
                            continue
                        if kind == "store":
                            fresh = (f"{var}.key is None", True) in atoms or (f"{var}.key", False) in atoms or _constructed_here(pm, st, var)
                            if fresh:
                                notes.append(f"`{unparse(st)}`: first key of a state that is not registered yet")
                            elif fkey in UNREGISTERED_BY_CALLER:
                                notes.append(f"`{unparse(st)}`: {UNREGISTERED_BY_CALLER[fkey]}")
                            else:
                                w = g.witness(starts, [N], avoid=disc)
                                if w is not None or not disc:
                                    problems.append(f"`{unparse(st)}` re-keys a state that may be registered in the identity map without discarding it first: "
                                                    f"the entry filed under the previous key is never removed (one object under two identity keys)")
                                    wit = wit or (g.describe_path(w) if w else None)
                                if disc and reg and g.witness([N], reg, avoid=heads) is None:
                                    problems.append(f"after `{unparse(st)}` the state is not registered again under its new key")
                                if disc and not reg:
                                    problems.append(f"`{var}` is discarded and re-keyed by `{unparse(st)}` but never registered again")
                                w = g.witness(reg, [N], avoid=list(heads) + list(disc))
                                if w is not None:
                                    problems.append(f"`{var}` is registered before `{unparse(st)}` without a discard in between: it stays filed under the previous key")
                                    wit = wit or g.describe_path(w)
                            w = g.witness([N], disc, avoid=heads)
                            if w is not None and not fresh:
                                problems.append(f"the identity map discards `{var}` after `{unparse(st)}`: the lookup uses the NEW key, so the entry under the key "
                                                f"the state was registered with stays in the map")
                                wit = wit or g.describe_path(w)
                        else:
                            edge_ok, has_sess = _no_session_edges(g, fn, var)
                            w = g.witness(starts, [N], avoid=disc, edge_ok=edge_ok) if disc else [N]
                            if w is None:
                                notes.append(f"`{unparse(st)}` after the state left the identity map" + (" (or has no session)" if has_sess else ""))
                                continue
                            # not taken out of the map here: the states must come from a parameter whose callers did it
                            src = var if var in params else None
                            for a in ancestors(pm, st):
                                if isinstance(a, ast.For) and isinstance(a.target, ast.Name) and a.target.id == var and isinstance(a.iter, ast.Name) and a.iter.id in params:
                                    src = a.iter.id
                            flags = [p_ for p_ in _removal_enabled_by(g, N, params) if p_ != src]
                            if src is None or not flags or imaps or disc:
                                problems.append(f"`{unparse(st)}` removes the key of a state that may still be registered in the identity map (the entry can no longer be "
                                                f"found through state.key)")
                                wit = wit or (g.describe_path(w) if disc else None)
                                continue
                            cp, n_sites = _callers_discard_first(ctx, fn.name, params, src, flags, disc_tbl)
                            ctx.require(n_sites >= 1, f"{fkey}: no call site of {fn.name} found in orm/")
                            problems.extend(cp)
                            notes.append(f"`{unparse(st)}` only under `{'/'.join(flags)}`; the {n_sites} call sites pass it only after discarding the states")
            n_inst += 1
            uniq = list(dict.fromkeys(problems))
            ctx.check(not uniq, f"{fkey}:key-write", "; ".join(uniq), "; ".join(dict.fromkeys(notes)) or "discard < key store < register", f"{m.path}:{fn.lineno}", wit)
    ctx.require(n_inst >= 1, "no function of orm/ writes the key of a state")


# ---------------------------------------------------------------------- C34-R7 / R8: the identity token travels with the primary key
TOKEN = "identity_token"
# callee names shared with unrelated APIs (dict.get ...): counted as a token-accepting call only on these receivers
AMBIGUOUS_CALLEES = {"get"}
SESSION_LIKE_RECEIVERS = ("self", "super()", "session", "_proxied", "sync_session", "sess")


def _acceptors(ctx) -> Dict[str, list]:
    """{function name: [FuncInfo]}: every function of the library that has a parameter named identity_token."""
    out: Dict[str, list] = {}
    for m in ctx.index.all_modules():
        if TOKEN not in m.source:
            continue
        for f in ctx.index.all_functions(m):
            if TOKEN in f.params and not f.type_only and not f.is_overload:
                out.setdefault(f.name, []).append(f)
    return out


def _callee_name(c: ast.Call):
    return c.func.attr if isinstance(c.func, ast.Attribute) else (c.func.id if isinstance(c.func, ast.Name) else None)


def _accepting_call(c: ast.Call, acc, own_class=None, index=None) -> bool:
    nm = _callee_name(c)
    if nm not in acc:
        return False
    if nm in AMBIGUOUS_CALLEES:
        recv = dotted(c.func.value) if isinstance(c.func, ast.Attribute) else None
        if recv in ("self", "super()") and own_class is not None and index is not None:
            # resolved through the static MRO of the class the call is written in
            target = index.resolve_method(own_class, nm)
            if target is not None:
                return TOKEN in target.params
        return recv is not None and recv.rsplit(".", 1)[-1] in SESSION_LIKE_RECEIVERS
    return True


def _token_arg(c: ast.Call, acc):
    """The expression a call passes as identity token (keyword, or the positional slot of the unique callee signature)."""
    v = kw(c, TOKEN)
    if v is not None:
        return v
    sigs = {tuple(p for p in f.params if p not in ("self", "cls")) for f in acc.get(_callee_name(c), [])}
    if len(sigs) == 1:
        sig = next(iter(sigs))
        i = sig.index(TOKEN)
        if i < len(c.args) and not any(isinstance(a, ast.Starred) for a in c.args[: i + 1]):
            return c.args[i]
    return None


def _reads(expr, names: Set[str]) -> bool:
    return any(isinstance(n, ast.Name) and n.id in names for n in ast.walk(expr))


def _is_const_index(n, i: int) -> bool:
    return isinstance(n, ast.Subscript) and isinstance(n.slice, ast.Constant) and n.slice.value == i


@R.rule("C34-R7", floor=24, template="T-FLOW",
        desc="an identity key is (class, primary key, identity token) and every load-by-identity uses all of it: a function "
             "that accepts an identity_token hands it on (to the identity_token slot of a call, into the key tuple or the "
             "load options) and passes a token to every token-accepting callee; a call that receives component [1] of an "
             "identity key receives component [2] of the SAME key as its identity_token")
def r7(ctx):
    acc = _acceptors(ctx)
    ctx.require(len(acc) >= 8, f"only {sorted(acc)} accept an identity_token")
    # (b) forwarders: the parameter is not dropped
    for name, fs in sorted(acc.items()):
        for f in fs:
            ctx.functions_analysed.add(f.key)
            tok = {TOKEN} | {n for n, v, st in name_stores(f.node) if isinstance(v, ast.Name) and v.id == TOKEN}
            sinks, bare = [], []
            for n in walk_local(f.node):
                if isinstance(n, ast.Call):
                    for k in n.keywords:
                        if k.arg == TOKEN and _reads(k.value, tok):
                            sinks.append(f"{unparse(n.func)}({TOKEN}=...)")
                    if _accepting_call(n, acc, f.cls, ctx.index):
                        t = _token_arg(n, acc)
                        if t is None and not any(k.arg is None for k in n.keywords):
                            bare.append(f"{unparse(n.func)}(...) at line {n.lineno}")
                        elif t is not None and kw(n, TOKEN) is None and _reads(t, tok):
                            sinks.append(f"{unparse(n.func)}(..., {unparse(t)})")
                elif isinstance(n, ast.Tuple) and isinstance(n.ctx, ast.Load) and any(isinstance(e, ast.Name) and e.id in tok for e in n.elts):
                    sinks.append("identity key tuple")
                elif isinstance(n, ast.Assign) and any(isinstance(t, ast.Subscript) for t in n.targets) and isinstance(n.value, ast.Name) and n.value.id in tok:
                    sinks.append(f"{unparse(n.targets[0])} = ...")
                elif isinstance(n, ast.Dict) and any(isinstance(v, ast.Name) and v.id in tok for v in n.values if v is not None):
                    sinks.append("options dict")
            # a forwarding-style call (>= 2 of this function's parameters passed on by keyword under their own names) that is given
            # something a token-carrying sibling call also gets (the primary key, the mapper ...) but no token
            carrying = [c for c in walk_local(f.node) if isinstance(c, ast.Call) and (t_ := kw(c, TOKEN)) is not None and _reads(t_, tok)]
            companions = {a.id for c in carrying for a in list(c.args) + [k.value for k in c.keywords if k.arg != TOKEN]
                          if isinstance(a, ast.Name) and a.id not in ("self", "cls") and a.id not in tok}
            for c in walk_local(f.node):
                if not isinstance(c, ast.Call) or kw(c, TOKEN) is not None or any(k.arg is None for k in c.keywords):
                    continue
                own = sum(1 for k in c.keywords if isinstance(k.value, ast.Name) and k.arg == k.value.id and k.arg in f.params)
                given = {a.id for a in list(c.args) + [k.value for k in c.keywords] if isinstance(a, ast.Name)}
                if own >= 2 and given & companions and not _accepting_call(c, acc, f.cls, ctx.index):
                    if (f"{TOKEN} is None", True) in set(guard_atoms(lexical_guards(f.module.parents(), c, stop=f.node))):
                        continue  # the branch that runs when no token was given
                    bare.append(f"{unparse(c.func)}(...) at line {c.lineno} (forwards {sorted(given & companions)} like its token-carrying sibling call, but no token)")
            msg = []
            if not sinks:
                msg.append(f"the {TOKEN} parameter is accepted but never handed on: loads issued from here use the key (class, pk, None)")
            if bare:
                msg.append(f"token-accepting callee(s) called without an identity token: {bare}")
            ctx.check(not msg, f"{f.key}:token-forwarded", "; ".join(msg), f"handed on via {sorted(set(sinks))}", f.loc)
    # (a) unpack sites: K[1] and K[2] of the same key travel together
    n_sites = 0
    for m in ctx.index.all_modules():
        if not (m.relpath.startswith("orm/") or m.relpath.startswith("ext/")) or "[1]" not in m.source:
            continue
        pm = None
        for fn in _functions(m.tree):
            comp: Dict[str, Tuple[str, int]] = {}  # local -> (key expression text, component)
            for n, v, st in name_stores(fn):
                for i in (1, 2):
                    if v is not None and _is_const_index(v, i):
                        comp[n] = (unparse(v.value), i)
            own_cls = None
            for c in calls_in(fn):
                if _callee_name(c) in AMBIGUOUS_CALLEES and own_cls is None:
                    cq = ".".join(reversed([a.name for a in ancestors(m.parents(), fn) if isinstance(a, ast.ClassDef)]))
                    own_cls = ctx.index.cls(f"{m.relpath}::{cq}") if cq and ctx.index.has(f"{m.relpath}::{cq}") else None
                if not _accepting_call(c, acc, own_cls, ctx.index):
                    continue
                bases = []
                for a in list(c.args) + [k.value for k in c.keywords if k.arg != TOKEN]:
                    if _is_const_index(a, 1):
                        bases.append(unparse(a.value))
                    elif isinstance(a, ast.Name) and comp.get(a.id, ("", 0))[1] == 1:
                        bases.append(comp[a.id][0])
                if not bases:
                    continue
                if pm is None:
                    pm = m.parents()
                n_sites += 1
                q = qualname(pm, fn)
                fkey = f"{m.relpath}::{q + '.' if q else ''}{fn.name}"
                ctx.functions_analysed.add(fkey)
                t = _token_arg(c, acc)
                if t is None:
                    got = None
                elif _is_const_index(t, 2):
                    got = unparse(t.value)
                elif isinstance(t, ast.Name) and comp.get(t.id, ("", 0))[1] == 2:
                    got = comp[t.id][0]
                else:
                    got = f"<{unparse(t)}>"
                ctx.check(got in bases, f"{fkey}:{_callee_name(c)}:key-components-together",
                          f"`{unparse(c.func)}` is given the primary key of identity key `{bases[0]}` (component [1]) but "
                          + ("no identity_token at all" if got is None else f"the identity token {got}")
                          + f": the load uses the key (class, pk, None) instead of `{bases[0]}`, so the object is registered under another identity key and "
                            f"a second object for the same row can be loaded",
                          f"{bases[0]}[1] and {bases[0]}[2] are passed together", f"{m.path}:{c.lineno}")
    ctx.require(n_sites >= 2, f"only {n_sites} call(s) pass the [1] component of an identity key to a token-accepting loader")


@R.rule("C34-R8", floor=3, template="T-GUARD",
        desc="`None` is the only 'no identity token' value (it is the parameter default and the third key component of "
             "token-less objects): a function that accepts an identity_token tests it only with `is None` / `is not None`, "
             "never by truthiness (a falsy token such as 0 would silently become 'no token')")
def r8(ctx):
    acc = _acceptors(ctx)
    n = 0
    for name, fs in sorted(acc.items()):
        for f in fs:
            truthy, none_tests = [], 0
            for x in walk_local(f.node):
                tests = []
                if isinstance(x, (ast.If, ast.While, ast.IfExp)):
                    tests.append(x.test)
                elif isinstance(x, ast.Assert):
                    tests.append(x.test)
                elif isinstance(x, ast.comprehension):
                    tests.extend(x.ifs)
                elif isinstance(x, ast.BoolOp):
                    tests.extend(v for v in x.values if isinstance(v, ast.Name))
                elif isinstance(x, ast.UnaryOp) and isinstance(x.op, ast.Not):
                    tests.append(x.operand)
                for t in tests:
                    for a, pol in test_atoms(t, True):
                        if a == TOKEN:
                            truthy.append(getattr(t, "lineno", f.node.lineno))
                        elif a == f"{TOKEN} is None":
                            none_tests += 1
            if not truthy and not none_tests:
                continue
            n += 1
            ctx.functions_analysed.add(f.key)
            ctx.check(not truthy, f"{f.key}:token-tested-against-None",
                      f"the identity token is tested by truthiness (line(s) {sorted(set(truthy))}): a falsy token (0, '') is treated as 'no token' and the "
                      f"object is loaded / looked up under (class, pk, None) instead of (class, pk, token)",
                      f"{none_tests} test(s), all against None", f.loc)
    ctx.require(n >= 1, "no function tests its identity_token parameter")


# ---------------------------------------------------------------------- C34-R9: only attached states are registered
# registration sites whose states are attached for a reason outside the function
ATTACHED_BY_CALLER = {
    "orm/session.py::Session._register_persistent": "called by UOWTransaction.finalize_flush_changes with the states of this flush, which "
                                                    "UOWTransaction collects from this session's _new / dirty identity map",
}


def _attach_evidence(ctx, g, fn, N, var: str) -> str:
    """Why the state `var` registered at CFG node N belongs to this session ('' when nothing shows it)."""
    pre = call_nodes(g, lambda c: callee_is(c, "_before_attach") and c.args and _mentions(c.args[0], var))
    if pre and g.always_preceded(N, pre) is None:
        return "after self._before_attach(state, ...)"
    st = [n.id for n in g.nodes if n.kind == "stmt" and isinstance(n.stmt, ast.Assign)
          and any(isinstance(t, ast.Attribute) and t.attr == "session_id" and dotted(t.value) == var for t in n.stmt.targets)
          and not (isinstance(n.stmt.value, ast.Constant) and n.stmt.value.value is None)]
    if st and g.always_preceded(N, st) is None:
        return "after state.session_id is set"
    # (a guard held in a boolean local -- `restore = s not in gone and s.session_id == ...; if restore:` -- counts like the test itself)
    for a, pol in sorted(resolved_atom_set(g, fn, N)):
        if pol and (a == f"{var}._attached" or a.startswith(f"{var}.session_id ==") or a.startswith(f"{var}.session_id is ")):
            return f"guarded by `{a}`"
        if not pol and a.startswith(f"{var}.session_id !="):
            return f"guarded by `not ({a})`"
    return ""


def _attached_at_call_sites(ctx, m, pm, fn, var: str) -> str:
    """For a PRIVATE helper that registers its parameter `var`: every use of the helper in its module is a call whose argument
    is shown to be attached in the caller (attach protocol / attachment guard there, or a caller listed in ATTACHED_BY_CALLER)."""
    params = [a.arg for a in fn.args.posonlyargs + fn.args.args + fn.args.kwonlyargs]
    if var not in params or not fn.name.startswith("_") or fn.name.startswith("__") or len(module_functions_by_name(m.tree).get(fn.name, [])) != 1:
        return ""
    calls, other = references(m.tree, fn.name, pm)
    if other or not calls:
        return ""
    why = []
    for encl, c in calls:
        if encl is None:
            return ""
        b = bind_args(fn, c, is_bound_method(fn, pm) and isinstance(c.func, ast.Attribute))
        a = b.get(var) if b else None
        if not isinstance(a, ast.Name):
            return ""
        q = qualname(pm, encl)
        ck = f"{m.relpath}::{q + '.' if q else ''}{encl.name}"
        gc = ctx.cfg(encl)
        sites = call_nodes(gc, lambda x: x is c)
        if not sites:
            return ""
        for N in sites:
            ev_ = _attach_evidence(ctx, gc, encl, N, a.id) or ATTACHED_BY_CALLER.get(ck, "")
            if not ev_:
                return ""
            why.append(f"{ck.partition('::')[2]}: {ev_}")
    return "helper, called only with attached states (" + "; ".join(dict.fromkeys(why)) + ")"


def _bookkeeping_source(pm, fn, N_stmt, var: str):
    """Name of the transaction bookkeeping map (`self.<M>`) whose iteration binds `var`, if any."""
    for a in ancestors(pm, N_stmt):
        if a is fn:
            break
        if isinstance(a, ast.For):
            tnames = {x.id for x in ast.walk(a.target) if isinstance(x, ast.Name)}
            if var in tnames:
                for x in ast.walk(a.iter):
                    if isinstance(x, ast.Attribute) and dotted(x.value) == "self" and x.attr.startswith("_"):
                        return x.attr
    return None


# 5 registering functions today; the floor is one lower so that ONE vanished registration is judged by C34-R6 (a re-keyed state that is
# never registered again) instead of being reported as blindness
@R.rule("C34-R9", floor=4, template="T-GUARD",
        desc="a state is registered in a session's identity map only while it is attached to that session: every "
             "add/replace/_add_unpresent outside orm/identity.py follows the attach protocol for that state "
             "(_before_attach, or session_id set beside it), or is guarded by the state's attachment, or takes its states "
             "from bookkeeping that Session._expunge_states prunes when a state leaves")
def r9(ctx):
    exp = ctx.func(f"{SESSION}::Session._expunge_states")
    pruned = set()
    for c in calls_in(exp.node):
        if isinstance(c.func, ast.Attribute) and c.func.attr in ("pop", "discard", "remove", "__delitem__") and isinstance(c.func.value, ast.Attribute):
            pruned.add((dotted(c.func.value.value) or "", c.func.value.attr))
    for n in walk_local(exp.node):
        if isinstance(n, ast.Delete):
            for t in n.targets:
                if isinstance(t, ast.Subscript) and isinstance(t.value, ast.Attribute):
                    pruned.add((dotted(t.value.value) or "", t.value.attr))
    tx_pruned = {attr for recv, attr in pruned if recv.endswith("_transaction")}
    n_inst = 0
    for m in ctx.index.all_modules():
        if not m.relpath.startswith("orm/") or m.relpath == IDENT or "identity_map" not in m.source:
            continue
        pm = m.parents()
        for fn in _functions(m.tree):
            imaps = _imap_aliases(fn)
            sites = [c for c in calls_in(fn) if isinstance(c.func, ast.Attribute) and c.func.attr in KEY_REGISTERS and _is_imap_recv(c.func.value, imaps)
                     and c.args and isinstance(c.args[0], ast.Name)]
            if not sites:
                continue
            q = qualname(pm, fn)
            fkey = f"{m.relpath}::{q + '.' if q else ''}{fn.name}"
            ctx.functions_analysed.add(fkey)
            g = ctx.cfg(fn)
            by_var: Dict[str, list] = {}
            for c in sites:
                by_var.setdefault(c.args[0].id, []).append(c)
            why, bad = [], []
            for var, cs in sorted(by_var.items()):
                for c in cs:
                    for N in call_nodes(g, lambda x: x is c):
                        ev_ = _attach_evidence(ctx, g, fn, N, var)
                        if not ev_ and fkey in ATTACHED_BY_CALLER:
                            ev_ = ATTACHED_BY_CALLER[fkey]
                        if not ev_:
                            ev_ = _attached_at_call_sites(ctx, m, pm, fn, var)
                        if not ev_:
                            src = _bookkeeping_source(pm, fn, g.node(N).stmt, var)
                            if src is not None and src in tx_pruned:
                                ev_ = f"states come from self.{src}, which Session._expunge_states prunes"
                            elif src is not None:
                                bad.append(f"`{unparse(c)}` registers states taken from the transaction's `{src}` bookkeeping, which keeps states that were "
                                           f"expunged in the meantime (Session._expunge_states prunes only {sorted(tx_pruned)} of the transaction); nothing tests "
                                           f"that `{var}` is still attached: a detached object (possibly attached to another session) is put back into this identity map")
                                continue
                        if not ev_:
                            bad.append(f"`{unparse(c)}` registers `{var}` without the attach protocol or a test of its attachment")
                        else:
                            why.append(ev_)
            n_inst += 1
            ctx.check(not bad, f"{fkey}:registers-attached", "; ".join(dict.fromkeys(bad)), "; ".join(dict.fromkeys(why)), f"{m.path}:{sites[0].lineno}")
    ctx.require(n_inst >= 1, "no identity-map registration site found outside orm/identity.py")


# ---------------------------------------------------------------------- C34-R10: the token a state carries is the token of its key
# `Mapper._identity_key_from_state(state)` RE-COMPUTES a state's identity key as (class, current pk, state.identity_token), and
# `Session._register_persistent` reads a difference between that and `state.key` as a primary-key switch (discard, re-key, re-file).
# A state whose `identity_token` is not the third component of its `key` is therefore re-filed under another key by the next
# flush, and a get()/query with the token builds a second object for the row.  So `key` and `identity_token` are written together.
STATE_CLS = "orm/state.py::InstanceState"
# key stores whose value is a key that the SAME state carried before (not decidable from the function itself)
KEY_OF_SAME_STATE = {
    "orm/session.py::SessionTransaction._restore_snapshot":
        "restores the key recorded at the primary-key switch in Session._register_persistent; the switch computes the new key with "
        "Mapper._identity_key_from_state(state), which never changes the token component, so the old key carries the state's own token",
}


def _recompute_functions(ctx) -> Dict[str, object]:
    """{function name: (FuncInfo, positional index of the state parameter, token component is `<that parameter>.identity_token`)}
    for the functions of orm/mapper.py that build an identity key `(self._identity_class, <read off parameter p>, <token>)` from an
    object handed to them instead of from an identity_token parameter: the key RE-COMPUTED from a state."""
    out = {}
    m = ctx.index.module("orm/mapper.py")
    for f in ctx.index.all_functions(m):
        if f.type_only or f.is_overload or TOKEN in f.params:
            continue
        for n in walk_local(f.node):
            if isinstance(n, ast.Return) and isinstance(n.value, ast.Tuple) and len(n.value.elts) == 3 and (dotted(n.value.elts[0]) or "").endswith("._identity_class"):
                src = [x.id for x in ast.walk(n.value.elts[1]) if isinstance(x, ast.Name) and x.id in f.params and x.id not in ("self", "cls")]
                if not src:
                    continue
                last = n.value.elts[2]
                good = isinstance(last, ast.Attribute) and last.attr == TOKEN and isinstance(last.value, ast.Name) and last.value.id in src
                p_ = last.value.id if good else src[0]
                out[f.name] = (f, f.params.index(p_) - (1 if f.params and f.params[0] in ("self", "cls") else 0), good, unparse(last))
    return out


def _const_iter_entries(call_or_loop_iter, elt_key, elt_val, gens):
    """[(constant key, value expression with the loop variable replaced by the constant, conditional?)] for a comprehension /
    loop `for K in (<constants>)` producing (K, <value>) pairs; None when the shape is not understood."""
    if len(gens) != 1:
        return None
    gen = gens[0]
    if not isinstance(gen.target, ast.Name) or not isinstance(gen.iter, (ast.Tuple, ast.List, ast.Set)):
        return None
    if not all(isinstance(e, ast.Constant) and isinstance(e.value, str) for e in gen.iter.elts):
        return None
    if not (isinstance(elt_key, ast.Name) and elt_key.id == gen.target.id):
        return None
    out = []
    for e in gen.iter.elts:
        out.append((e.value, expand(elt_val, {gen.target.id: ast.Constant(value=e.value)}), bool(gen.ifs)))
    return out


def _const_loop_of(pm, fn, node, name: str):
    """(the `for <name> in (<string constants>)` loop around node | None, node is under an `if` inside it)."""
    cond, cur = False, pm.get(node)
    while cur is not None and cur is not fn:
        if isinstance(cur, ast.If):
            cond = True
        if isinstance(cur, ast.For) and isinstance(cur.target, ast.Name) and cur.target.id == name:
            ok = isinstance(cur.iter, (ast.Tuple, ast.List, ast.Set)) and all(isinstance(e, ast.Constant) and isinstance(e.value, str) for e in cur.iter.elts)
            return (cur if ok else None), cond
        cur = pm.get(cur)
    return None, cond


def _local_collection_entries(fn, name: str, depth=0):
    """Entries of a local dict / list of pairs that fn builds before handing it to `__dict__.update`: every binding of the name is a
    display / comprehension / empty `dict()`/`{}`/`[]`, and it is otherwise only filled by `name[K] = v`, `name.append((K, v))`,
    `name.update(...)` with K a string constant or the variable of a loop over string constants.  None = not understood."""
    pm = {}
    for p_ in ast.walk(fn):
        for ch in ast.iter_child_nodes(p_):
            pm[ch] = p_
    out = []
    binds = [(v, st) for n, v, st in name_stores(fn) if n == name]
    if not binds or any(v is None for v, st in binds):
        return None
    for v, st in binds:
        if isinstance(v, ast.Call) and isinstance(v.func, ast.Name) and v.func.id in ("dict", "list") and not v.args:
            ents = [(k.arg, k.value, False) for k in v.keywords if k.arg is not None]
        else:
            ents = _dict_update_entries(v, [], fn, depth + 1)
        if ents is None:
            return None
        out += ents

    def keyed(knode, vnode, at):
        if isinstance(knode, ast.Constant) and isinstance(knode.value, str):
            return [(knode.value, vnode, False)]
        if isinstance(knode, ast.Name):
            loop, cond = _const_loop_of(pm, fn, at, knode.id)
            if loop is not None:
                return [(e.value, expand(vnode, {knode.id: ast.Constant(value=e.value)}), cond) for e in loop.iter.elts]
        return None
    for n in walk_local(fn):
        ents = []
        if isinstance(n, ast.Assign):
            for t in n.targets:
                if isinstance(t, ast.Subscript) and isinstance(t.value, ast.Name) and t.value.id == name:
                    ents = keyed(t.slice, n.value, n)
        elif isinstance(n, (ast.AugAssign, ast.Delete)) and any(isinstance(x, ast.Name) and x.id == name for x in ast.walk(n)):
            ents = None
        elif isinstance(n, ast.Call) and isinstance(n.func, ast.Attribute) and isinstance(n.func.value, ast.Name) and n.func.value.id == name:
            if n.func.attr == "append" and len(n.args) == 1 and isinstance(n.args[0], ast.Tuple) and len(n.args[0].elts) == 2:
                ents = keyed(n.args[0].elts[0], n.args[0].elts[1], n)
            elif n.func.attr == "update" and len(n.args) <= 1:
                ents = _dict_update_entries(n.args[0] if n.args else None, n.keywords, fn, depth + 1)
            elif n.func.attr in ("items", "get", "keys", "values", "copy", "__contains__"):
                ents = []
            else:
                ents = None
        if ents is None:
            return None
        out += ents
    return out


def _dict_update_entries(arg, kws, fn=None, depth=0):
    """Entries written by `<x>.__dict__.update(arg, **kws)`: [(key, value expr, conditional)]; None = shape not understood."""
    out = [(k.arg, k.value, False) for k in kws if k.arg is not None]
    if any(k.arg is None for k in kws):
        return None
    if arg is None:
        return out
    if isinstance(arg, ast.Name) and fn is not None and depth < 2:
        r = _local_collection_entries(fn, arg.id, depth)
        return None if r is None else out + r
    if isinstance(arg, ast.Dict):
        for k, v in zip(arg.keys, arg.values):
            if not (isinstance(k, ast.Constant) and isinstance(k.value, str)):
                return None
            out.append((k.value, v, False))
        return out
    if isinstance(arg, (ast.List, ast.Tuple)):
        for e in arg.elts:
            if not (isinstance(e, ast.Tuple) and len(e.elts) == 2 and isinstance(e.elts[0], ast.Constant)):
                return None
            out.append((e.elts[0].value, e.elts[1], False))
        return out
    if isinstance(arg, (ast.ListComp, ast.GeneratorExp)) and isinstance(arg.elt, ast.Tuple) and len(arg.elt.elts) == 2:
        r = _const_iter_entries(arg, arg.elt.elts[0], arg.elt.elts[1], arg.generators)
        return None if r is None else out + r
    if isinstance(arg, ast.DictComp):
        r = _const_iter_entries(arg, arg.key, arg.value, arg.generators)
        return None if r is None else out + r
    return None


def _is_own_dict(e, var: str) -> bool:
    return isinstance(e, ast.Attribute) and e.attr == "__dict__" and isinstance(e.value, ast.Name) and e.value.id == var


def _attr_writes(ctx, fn, var: str, fkey: str) -> Dict[str, List[Tuple[ast.stmt, ast.expr, bool, ast.stmt]]]:
    """{attribute: [(statement, value, conditional, anchor)]} for the instance attributes of `var` that fn's own scope writes by
    plain assignment, `setattr(var, "a", v)`, `var.__dict__["a"] = v`, `var.__dict__.update(...)`, or a loop / comprehension over
    constant attribute names doing one of these (anchor = that loop, else the statement: the statement to take loop passes from)."""
    out: Dict[str, List[Tuple[ast.stmt, ast.expr, bool, ast.stmt]]] = {}

    def add(a, st, v, cond=False, anchor=None):
        out.setdefault(a, []).append((st, v, cond, anchor or st))

    pm_loops: List[Tuple[ast.For, ast.stmt]] = []
    for st in walk_stmts(fn.body):
        if isinstance(st, (ast.Assign, ast.AnnAssign)) and getattr(st, "value", None) is not None:
            tg = st.targets if isinstance(st, ast.Assign) else [st.target]
            for t in tg:
                if isinstance(t, ast.Attribute) and isinstance(t.value, ast.Name) and t.value.id == var:
                    add(t.attr, st, st.value)
                elif isinstance(t, ast.Subscript) and _is_own_dict(t.value, var):
                    if isinstance(t.slice, ast.Constant) and isinstance(t.slice.value, str):
                        add(t.slice.value, st, st.value)
                    elif isinstance(t.slice, ast.Name):
                        pm_loops.append((t.slice.id, st, st.value))
                    else:
                        ctx.require(False, f"{fkey}: `{unparse(t)}` writes an attribute of the state under a computed name")
        elif isinstance(st, ast.Expr) and isinstance(st.value, ast.Call):
            c = st.value
            if isinstance(c.func, ast.Attribute) and c.func.attr == "update" and _is_own_dict(c.func.value, var):
                ents = _dict_update_entries(c.args[0] if c.args else None, c.keywords, fn) if len(c.args) <= 1 else None
                ctx.require(ents is not None, f"{fkey}: `{unparse(c)[:80]}` updates the state's __dict__ in a shape that is not understood")
                for k, v, cond in ents:
                    add(k, st, v, cond)
            elif isinstance(c.func, ast.Name) and c.func.id == "setattr" and len(c.args) == 3 and isinstance(c.args[0], ast.Name) and c.args[0].id == var:
                if isinstance(c.args[1], ast.Constant) and isinstance(c.args[1].value, str):
                    add(c.args[1].value, st, c.args[2])
                elif isinstance(c.args[1], ast.Name):
                    pm_loops.append((c.args[1].id, st, c.args[2]))
    if pm_loops:
        # `for K in ("a", "b"): [if K in D:] setattr(var, K, D[K])` -- one statement that may write each of the constant names
        pm = {}
        for p_ in ast.walk(fn):
            for ch in ast.iter_child_nodes(p_):
                pm[ch] = p_
        for kname, st, v in pm_loops:
            loop, cond, cur = None, False, pm.get(st)
            while cur is not None and cur is not fn:
                if isinstance(cur, ast.If):
                    cond = True
                if isinstance(cur, ast.For) and isinstance(cur.target, ast.Name) and cur.target.id == kname:
                    loop = cur
                    break
                cur = pm.get(cur)
            ok = loop is not None and isinstance(loop.iter, (ast.Tuple, ast.List, ast.Set)) and all(isinstance(e, ast.Constant) and isinstance(e.value, str) for e in loop.iter.elts)
            ctx.require(ok, f"{fkey}: `{unparse(st)[:80]}` writes an attribute of the state under a computed name")
            for e in loop.iter.elts:
                add(e.value, st, expand(v, {kname: ast.Constant(value=e.value)}), cond, loop)
    return out


def _emitted_entries(fn) -> Set[str]:
    """String keys a `__getstate__`-like function can put into the dict it builds: dict-display keys, constant subscript stores,
    constants iterated by a loop / comprehension."""
    out: Set[str] = set()
    for n in ast.walk(fn):
        if isinstance(n, ast.Dict):
            out |= {k.value for k in n.keys if isinstance(k, ast.Constant) and isinstance(k.value, str)}
        elif isinstance(n, ast.Subscript) and isinstance(n.ctx, ast.Store) and isinstance(n.slice, ast.Constant) and isinstance(n.slice.value, str):
            out.add(n.slice.value)
        elif isinstance(n, (ast.comprehension, ast.For)) and isinstance(n.iter, (ast.Tuple, ast.List, ast.Set)):
            out |= {e.value for e in n.iter.elts if isinstance(e, ast.Constant) and isinstance(e.value, str)}
        elif isinstance(n, ast.Call):
            out |= {k.arg for k in n.keywords if k.arg is not None and callee_is(n, "update", "dict")}
    return out


def _entry_of(e, params) -> Tuple[str, str]:
    """(`D`, `name`) when e is `D["name"]` / `D.get("name")` / `D.pop("name")` of a parameter D, else ('', '')."""
    if isinstance(e, ast.Subscript) and isinstance(e.value, ast.Name) and e.value.id in params and isinstance(e.slice, ast.Constant) and isinstance(e.slice.value, str):
        return e.value.id, e.slice.value
    if (isinstance(e, ast.Call) and isinstance(e.func, ast.Attribute) and e.func.attr in ("get", "pop") and isinstance(e.func.value, ast.Name) and e.func.value.id in params
            and e.args and isinstance(e.args[0], ast.Constant) and isinstance(e.args[0].value, str)):
        return e.func.value.id, e.args[0].value
    return "", ""


def _key_falsy_edges(g, fn, var: str, after=(), stored=None):
    """edge_ok: non-exceptional edges minus the branch outcomes on which `var.key` (or the value `stored` that was assigned to it)
    is known to be None / falsy.  A local bound to `var.key` counts as the key when it is read off after the store(s) `after` (a
    snapshot taken before is the OLD key)."""
    binds = dict(bool_binds(fn))
    texts = {f"{var}.key"}
    if stored is not None:
        sb = {n: x for n, x in single_binds(fn).items() if n != var}
        texts |= {unparse(stored), unparse(expand(stored, sb))}
        texts |= {n for n, x in sb.items() if unparse(expand(x, sb)) in texts}
    for n, v in single_binds(fn).items():
        if isinstance(v, ast.Attribute) and v.attr == "key" and isinstance(v.value, ast.Name) and v.value.id == var and (after is None or after):
            sts = [st for nm, vv, st in name_stores(fn) if nm == n]
            if after is None or all(g.always_preceded(x, after) is None for st in sts for x in g.nodes_for(st)):
                binds[n] = v
    barred = set()
    for t in g.nodes:
        if t.kind != "test":
            continue
        for lab, pol in (("true", True), ("false", False)):
            at = set(test_atoms(expand(t.stmt.test, binds), pol))
            if any((x, False) in at or (f"{x} is None", True) in at for x in texts):
                barred.add((t.id, lab))
    return lambda a, b, lab: lab != "exc" and (a, lab) not in barred


class _TokenRule:
    """Shared state of one run of C34-R10."""

    def __init__(self, ctx):
        self.ctx = ctx
        self.recompute = _recompute_functions(ctx)
        self.state_cls = ctx.index.cls(STATE_CLS)
        self.state_classes = {c.key for c in ctx.index.subclasses(self.state_cls)} | {self.state_cls.key}
        self._sync: Dict[int, bool] = {}

    # -- values ------------------------------------------------------------------------------------------------
    def own_token_value(self, fn, var: str, v, binds) -> bool:
        """`v` is the identity key re-computed from `var`'s own identity_token."""
        v = expand(v, binds)
        if isinstance(v, ast.Call) and callee_is(v, "cast") and len(v.args) == 2:
            v = v.args[1]
        if isinstance(v, ast.Tuple) and len(v.elts) == 3:
            return unparse(v.elts[2]) == f"{var}.{TOKEN}"
        if isinstance(v, ast.Call):
            nm = _callee_name(v)
            if nm in self.recompute:
                f, idx = self.recompute[nm][:2]
                a = v.args[idx] if idx < len(v.args) else kw(v, f.params[idx + (1 if f.params[0] in ("self", "cls") else 0)])
                return isinstance(a, ast.Name) and a.id == var
        return False

    def value_is_own(self, m, pm, fn, var: str, v, depth=2) -> Tuple[bool, str]:
        """(every value `v` can stand for is re-computed from var's own token, why).  Locals are followed through ALL their
        bindings; a parameter of a private helper is followed to the arguments at every call site of the helper."""
        binds = {n: x for n, x in single_binds(fn).items() if n != var}
        if self.own_token_value(fn, var, v, binds):
            return True, "re-computed from the state's own identity_token"
        v = expand(v, binds)
        if not isinstance(v, ast.Name):
            return False, ""
        params = [a.arg for a in fn.args.posonlyargs + fn.args.args + fn.args.kwonlyargs]
        vals = [(val, st) for n, val, st in name_stores(fn) if n == v.id]
        if vals:
            if v.id in params or any(val is None for val, st in vals):
                return False, ""
            ok = all(self.value_is_own(m, pm, fn, var, val, depth)[0] for val, st in vals) if len(vals) > 1 else False
            return ok, "every binding is re-computed from the state's own identity_token" if ok else ""
        if v.id not in params or var not in params or depth <= 0:
            return False, ""
        if not fn.name.startswith("_") or fn.name.startswith("__") or len(module_functions_by_name(m.tree).get(fn.name, [])) != 1:
            return False, ""
        calls, other = references(m.tree, fn.name, pm)
        if other or not calls:
            return False, ""
        why = []
        for encl, c in calls:
            if encl is None:
                return False, ""
            b = bind_args(fn, c, is_bound_method(fn, pm) and isinstance(c.func, ast.Attribute))
            sv, vv = (b.get(var), b.get(v.id)) if b else (None, None)
            if not isinstance(sv, ast.Name) or vv is None:
                return False, ""
            q = qualname(pm, encl)
            ck = f"{m.relpath}::{q + '.' if q else ''}{encl.name}"
            if ck in KEY_OF_SAME_STATE:
                why.append(f"{encl.name}: {KEY_OF_SAME_STATE[ck]}")
                continue
            ok, w = self.value_is_own(m, pm, encl, sv.id, vv, depth - 1)
            if not ok:
                return False, ""
            why.append(f"{encl.name}: {w}")
        return True, "helper; at its call sites the key is " + "; ".join(dict.fromkeys(why))

    # -- token writes ------------------------------------------------------------------------------------------
    def token_source(self, fn, var: str, key_value, e, binds, params, getstate_emits) -> Tuple[str, str]:
        """('any' | 'after' | '', reason): `e` is the token of the key `key_value` / of `var.key` (then the write must FOLLOW the
        key store), or '' with the reason why it is not."""
        ee = expand(e, binds)
        kv = expand(key_value, binds)
        if isinstance(ee, ast.IfExp):
            at = set(test_atoms(ee.test, True))
            if (f"{var}.key", True) in at or (f"{var}.key is None", False) in at:
                return self.token_source(fn, var, key_value, ee.body, binds, params, getstate_emits)
        for cand, base in ((e, key_value), (ee, kv), (ee, key_value), (e, kv)):
            if _is_const_index(cand, 2):
                if unparse(cand.value) == unparse(base):
                    return "any", "component [2] of the stored key"
                if unparse(cand.value) == f"{var}.key":
                    return "after", f"{var}.key[2]"
        if isinstance(kv, ast.Tuple) and len(kv.elts) == 3 and unparse(kv.elts[2]) in (unparse(ee), unparse(e)):
            return "any", "the token the key was built with"
        dk, nk = _entry_of(kv, params)
        dt, nt = _entry_of(ee, params)
        if dk and dk == dt and nk == "key":
            if getstate_emits is None:
                return "", f"`{unparse(e)}` is an entry of `{dk}` but no __getstate__ of the class was found to write it"
            if nt in getstate_emits:
                return "any", f"entry {nt!r} of the same pickled dict, written by __getstate__ beside 'key'"
            return "", (f"`{unparse(e)}` reads the entry {nt!r} of the pickled dict, which __getstate__ never writes (it emits {sorted(getstate_emits)}): "
                        f"after unpickling the token is the class default None whatever the key says")
        return "", f"`{unparse(e)}` is not the token of the key"

    def syncs_token(self, hfn, p: str) -> bool:
        """Helper summary: on every normal path on which `p.key` is set, hfn assigns p.identity_token = p.key[2]."""
        k = (id(hfn), p)
        if k not in self._sync:
            self._sync[k] = False
            g = self.ctx.cfg(hfn)
            binds = {n: x for n, x in single_binds(hfn).items() if n != p}
            W = []
            for st, e, cond, _a in _attr_writes(self.ctx, hfn, p, hfn.name).get(TOKEN, []):
                kind, _ = self.token_source(hfn, p, ast.Attribute(value=ast.Name(id=p, ctx=ast.Load()), attr="key", ctx=ast.Load()), e, binds, [], None)
                if kind and not cond:
                    W += g.nodes_for(st)
            self._sync[k] = bool(W) and g.witness([g.entry], [g.exit], avoid=W, edge_ok=_key_falsy_edges(g, hfn, p, None)) is None  # the helper does not store the key: any read of it is current
        return self._sync[k]

    def sync_calls(self, m, pm, fn, g, var: str) -> List[int]:
        """CFG nodes of fn that call a helper which sets var.identity_token from var.key (method of the state class called on
        var, or a function of the module handed var)."""
        byname = module_functions_by_name(m.tree)

        def is_sync(c: ast.Call) -> bool:
            nm = _callee_name(c)
            if nm is None:
                return False
            if isinstance(c.func, ast.Attribute) and isinstance(c.func.value, ast.Name) and c.func.value.id == var and not c.args:
                t = self.ctx.index.resolve_method(self.state_cls, nm)
                if t is not None and t.params and not t.type_only:
                    return self.syncs_token(t.node, t.params[0])
            fs = byname.get(nm, [])
            if len(fs) == 1 and fs[0] is not fn:
                b = bind_args(fs[0], c, is_bound_method(fs[0], pm) and isinstance(c.func, ast.Attribute))
                for p, a in (b or {}).items():
                    if isinstance(a, ast.Name) and a.id == var and p not in ("self", "cls"):
                        return self.syncs_token(fs[0], p)
            return False
        return call_nodes(g, is_sync)


@R.rule("C34-R10", floor=7, template="T-FLOW",
        desc="a state's identity_token is the third component of its key (Mapper._identity_key_from_state re-computes the key "
             "from state.identity_token and Session._register_persistent re-files the object when the two differ): wherever orm/ "
             "stores a key on a state that is not re-computed from the state's own token, every path through the store also sets "
             "state.identity_token to the token of that key (component [2] of it, the token it was built with, or the pickled entry "
             "that __getstate__ writes beside it)")
def r10(ctx):
    T = _TokenRule(ctx)
    ctx.require(T.recompute, "orm/mapper.py no longer has a function that builds an identity key (self._identity_class, .., ..) from a state")
    for nm, (f, idx, good, last) in sorted(T.recompute.items()):
        ctx.functions_analysed.add(f.key)
        p_ = f.params[idx + (1 if f.params[0] in ('self', 'cls') else 0)]
        ctx.check(good, f"{f.key}:key-recomputed-from-state-token",
                  f"the identity key re-computed from `{p_}` ends in `{last}` instead of `{p_}.{TOKEN}`: for an object that carries a token the flush compares "
                  f"(class, pk, {last}) with state.key, takes the difference for a primary-key switch and re-files the object under the other key",
                  f"returns (.., .., {p_}.{TOKEN})", f.loc)
    n_inst = 0
    for m in ctx.index.all_modules():
        if not m.relpath.startswith("orm/") or m.relpath in NOT_STATE_KEYS or "key" not in m.source:
            continue
        pm = None
        for fn in _functions(m.tree):
            if pm is None:
                pm = m.parents()
            par = pm.get(fn)
            q = qualname(pm, fn)
            fkey = f"{m.relpath}::{q + '.' if q else ''}{fn.name}"
            # state variables: locals / parameters whose key is assigned; `self` only inside the state class
            cands = {v for v, ws in _key_writes(fn).items() if any(k == "store" for st, k in ws)}
            first = (fn.args.posonlyargs + fn.args.args)[:1]
            if isinstance(par, ast.ClassDef) and f"{m.relpath}::{qualname(pm, par) + '.' if qualname(pm, par) else ''}{par.name}" in T.state_classes and first:
                cands.add(first[0].arg)
            if not cands:
                continue
            params = [a.arg for a in fn.args.posonlyargs + fn.args.args + fn.args.kwonlyargs]
            problems, notes, wit = [], [], None
            g = None
            for var in sorted(cands):
                writes = _attr_writes(ctx, fn, var, fkey)
                stores = [(st, v, a) for st, v, c, a in writes.get("key", []) if not (isinstance(v, ast.Constant) and v.value is None)]
                if not stores:
                    continue
                if g is None:
                    g = ctx.cfg(fn)
                binds = {n: x for n, x in single_binds(fn).items() if n != var}  # the state variable itself is never written out
                getstate_emits = None
                if isinstance(par, ast.ClassDef):
                    gs = [x for x in par.body if isinstance(x, (ast.FunctionDef, ast.AsyncFunctionDef)) and x.name == "__getstate__"]
                    if gs:
                        getstate_emits = _emitted_entries(gs[0])
                sync = None
                for st, v, anchor in stores:
                    own, why = T.value_is_own(m, pm, fn, var, v)
                    if own:
                        notes.append(f"`{unparse(st)[:60]}`: {why}")
                        continue
                    if fkey in KEY_OF_SAME_STATE:
                        notes.append(f"`{unparse(st)[:60]}`: {KEY_OF_SAME_STATE[fkey]}")
                        continue
                    w_any, w_after, rejected = [], [], []
                    for tst, e, tcond, _a in writes.get(TOKEN, []):
                        kind, why = T.token_source(fn, var, v, e, binds, params, getstate_emits)
                        if kind == "any":
                            w_any += g.nodes_for(tst)
                        elif kind == "after":
                            w_after += g.nodes_for(tst)
                        else:
                            rejected.append(why)
                    if sync is None:
                        sync = T.sync_calls(m, pm, fn, g, var)
                    w_after += sync
                    starts, heads = _pass_bounds(g, pm, fn, anchor)
                    ends = list(heads) + [g.exit]
                    ok_edges = _key_falsy_edges(g, fn, var, g.nodes_for(st), v)
                    bad = None
                    for N in g.nodes_for(st):
                        if N in w_any:
                            continue
                        before = g.witness(starts, [N], avoid=w_any, edge_ok=no_exc) if N not in starts else [N]
                        after = g.witness([N], ends, avoid=set(w_any) | set(w_after), edge_ok=ok_edges)
                        if before is not None and after is not None:
                            bad = list(before) + [x for x in after if x != N]
                            break
                    if bad is None:
                        notes.append(f"`{unparse(st)[:60]}`: the token is set from the same key on every path")
                        continue
                    txt = unparse(st)
                    txt = txt if len(txt) <= 90 else txt[:87] + "..."
                    problems.append(
                        f"`{txt}` gives `{var}` a key that is not re-computed from the state's own {TOKEN}, and "
                        + ("nothing sets" if not (w_any or w_after or rejected) else "not every path sets")
                        + f" `{var}.{TOKEN}` to the token of that key"
                        + (f" ({'; '.join(dict.fromkeys(rejected))})" if rejected else "")
                        + f": for a key (class, pk, token) the state keeps another token, Mapper.{sorted(T.recompute)[0]}(state) then differs from state.key, "
                          f"Session._register_persistent takes that for a primary-key switch and files the object under the other key at the next flush, so "
                          f"get() / a query with the token misses the identity map and a second object is built for the row")
                    wit = wit or g.describe_path(bad)
            if not problems and not notes:
                continue
            n_inst += 1
            ctx.functions_analysed.add(fkey)
            ctx.check(not problems, f"{fkey}:token-follows-key", "; ".join(dict.fromkeys(problems)), "; ".join(dict.fromkeys(notes)), f"{m.path}:{fn.lineno}", wit)
    ctx.require(n_inst >= 1, "no function of orm/ stores the key of a state")


# ---------------------------------------------------------------------- self-test battery
R.mutant("foreign-dict-store", SESSION,
         sub("    def _validate_persistent(self, state: InstanceState[Any]) -> None:\n", "    def _validate_persistent(self, state: InstanceState[Any]) -> None:\n        self.identity_map._dict[state.key] = state\n"), "C34-R1")
R.mutant("new-mutating-method", IDENT,
         sub("    def discard(self, state: InstanceState[Any]) -> None:\n        self.safe_discard(state)\n", "    def discard(self, state: InstanceState[Any]) -> None:\n        self._dict.pop(state.key, None)\n"), "C34-R1")
R.mutant("add-no-raise", IDENT,
         sub("                    if o is not None:\n                        raise sa_exc.InvalidRequestError(\n                            \"Can't attach instance \"\n                            \"%s; another instance with key %s is already \"\n                            \"present in this session.\"\n                            % (orm_util.state_str(state), state.key)\n                        )\n",
             "                    if o is not None:\n                        pass\n"), "C34-R2")
R.mutant("add-raise-condition-flipped", IDENT, sub("                if existing_state is not state:\n                    o = existing_state.obj()\n                    if o is not None:", "                if existing_state is not state:\n                    o = existing_state.obj()\n                    if o is None:"), "C34-R2")
R.mutant("replace-no-release", IDENT, sub("                if existing_non_none is not state:\n                    self._manage_removed_state(existing_non_none)\n                else:\n                    return None\n", "                if existing_non_none is state:\n                    return None\n"), "C34-R2")
R.mutant("add-no-incoming", IDENT, sub("        self._dict[key] = state\n        self._manage_incoming_state(state)\n        return True\n", "        self._dict[key] = state\n        return True\n"), "C34-R3")
R.mutant("safe-discard-no-removed", IDENT, sub("                    self._dict.pop(key, None)\n                    self._manage_removed_state(state)\n", "                    self._dict.pop(key, None)\n"), "C34-R3")
R.mutant("add-unpresent-no-link", IDENT, sub("        self._dict[key] = state\n        state._instance_dict = self._wr\n", "        self._dict[key] = state\n"), "C34-R3")
R.mutant("loader-always-new-instance", LOADING, sub("            instance = session_identity_map.get(identitykey)\n\n            if instance is not None:\n", "            instance = session_identity_map.get(identitykey)\n\n            if False:\n"), "C34-R4")
R.mutant("loader-registers-other-key", LOADING, sub("                session_identity_map._add_unpresent(state, identitykey)\n", "                session_identity_map._add_unpresent(state, refresh_identity_key)\n"), "C34-R4")
R.mutant("loader-does-not-register", LOADING, sub("                session_identity_map._add_unpresent(state, identitykey)\n", "                pass\n"), "C34-R4")
R.mutant("get-hit-falls-through", SESSION, sub("                if not isinstance(instance, mapper.class_):\n                    return None\n                return instance\n", "                if not isinstance(instance, mapper.class_):\n                    return None\n"), "C34-R5")
R.mutant("get-skips-map-for-options", SESSION, sub("            and for_update_arg is None\n        ):\n            instance = self._identity_lookup(", "            and for_update_arg is None\n            and not options\n        ):\n            instance = self._identity_lookup("), "C34-R5")
R.mutant("get-from-identity-always-refresh", LOADING, sub("        # expired - ensure it still exists\n        if state.expired:\n", "        # expired - ensure it still exists\n        if True:\n"), "C34-R5")
# benign
R.mutant("benign-rename-existing", IDENT, sub("                existing_state = self._dict[key]\n            except KeyError:\n                # catch gc removed the key after we just checked for it\n                pass\n            else:\n                if existing_state is not state:\n                    o = existing_state.obj()",
                                              "                prior = self._dict[key]\n            except KeyError:\n                # catch gc removed the key after we just checked for it\n                pass\n            else:\n                if prior is not state:\n                    o = prior.obj()"), None)
R.mutant("benign-loader-log", LOADING, sub("                instance = mapper.class_manager.new_instance()\n\n                dict_ = instance_dict(instance)\n", "                instance = mapper.class_manager.new_instance()\n                _k = identitykey\n\n                dict_ = instance_dict(instance)\n"), None)
R.mutant("benign-get-reorder-conjuncts", SESSION, sub("            not populate_existing\n            and not mapper.always_refresh\n            and for_update_arg is None\n", "            for_update_arg is None\n            and not mapper.always_refresh\n            and not populate_existing\n"), None)

# ---- C34-R6 (key writes vs. identity-map operations)
_RESTORE_LOOP = ("            self.session.identity_map.safe_discard(s)\n\n"
                 "            # restore the old key and the object, but only if we didn't\n"
                 "            # expunge; an expunged object is transient and has no key\n"
                 "            if s not in to_expunge and s.session_id == self.session.hash_key:\n"
                 "                s.key = oldkey\n"
                 "                self.session.identity_map.replace(s)\n")
_RESTORE_IF = "            if s not in to_expunge and s.session_id == self.session.hash_key:\n"
R.mutant("seed-restore-rekeys-before-discard", SESSION,
         sub(_RESTORE_LOOP, _RESTORE_IF + "                s.key = oldkey\n\n            self.session.identity_map.safe_discard(s)\n\n"
                            + _RESTORE_IF + "                self.session.identity_map.replace(s)\n"), "C34-R6")
R.mutant("restore-rekeys-without-reregistering", SESSION,
         sub(_RESTORE_LOOP, "            self.session.identity_map.safe_discard(s)\n\n" + _RESTORE_IF + "                s.key = oldkey\n"), "C34-R6")
R.mutant("restore-registers-before-rekey", SESSION,
         sub(_RESTORE_LOOP, "            self.session.identity_map.safe_discard(s)\n\n" + _RESTORE_IF + "                self.session.identity_map.replace(s)\n                s.key = oldkey\n"), "C34-R6")
R.mutant("register-persistent-switch-without-discard", SESSION,
         sub("                    # map (see test/orm/test_naturalpks.py ReversePKsTest)\n                    self.identity_map.safe_discard(state)\n", "                    # map (see test/orm/test_naturalpks.py ReversePKsTest)\n"), "C34-R6")
R.mutant("make-transient-removes-key-before-expunge", SESSION,
         chain(sub("    state = attributes.instance_state(instance)\n    s = _state_session(state)\n    if s:\n        s._expunge_states([state])\n",
                   "    state = attributes.instance_state(instance)\n    if state.key:\n        del state.key\n    s = _state_session(state)\n    if s:\n        s._expunge_states([state])\n"),
               sub("    if state.key:\n        del state.key\n    if state._deleted:\n        del state._deleted\n", "    if state._deleted:\n        del state._deleted\n")), "C34-R6")
R.mutant("expunge-detaches-to-transient-before-discard", SESSION,
         chain(sub("        self, states: Iterable[InstanceState[Any]], to_transient: bool = False\n    ) -> None:\n        for state in states:\n            if state in self._new:\n",
                   "        self, states: Iterable[InstanceState[Any]], to_transient: bool = False\n    ) -> None:\n        statelib.InstanceState._detach_states(\n            states, self, to_transient=to_transient\n        )\n"
                   "        for state in states:\n            if state in self._new:\n"),
               sub("                self._transaction._deleted.pop(state, None)\n        statelib.InstanceState._detach_states(\n            states, self, to_transient=to_transient\n        )\n",
                   "                self._transaction._deleted.pop(state, None)\n")), "C34-R6")
R.mutant("benign-restore-alias-and-rename", SESSION,
         sub("        for s, (oldkey, newkey) in self._key_switches.items():\n            # we probably can do this conditionally based on\n            # if we expunged or not, but safe_discard does that anyway\n" + _RESTORE_LOOP,
             "        imap = self.session.identity_map\n        for st_, (k_old, k_new) in self._key_switches.items():\n            imap.safe_discard(st_)\n            _dbg = k_new\n"
             "            if st_ not in to_expunge and st_.session_id == self.session.hash_key:\n                st_.key = k_old\n                imap.replace(st_)\n"), None)
R.mutant("benign-register-persistent-discard-in-helper", SESSION,
         chain(sub("                    # map (see test/orm/test_naturalpks.py ReversePKsTest)\n                    self.identity_map.safe_discard(state)\n",
                   "                    # map (see test/orm/test_naturalpks.py ReversePKsTest)\n                    self._forget_identity(state)\n"),
               sub("    def _register_altered(self, states: Iterable[InstanceState[Any]]) -> None:\n",
                   "    def _forget_identity(self, state: InstanceState[Any]) -> None:\n        self.identity_map.safe_discard(state)\n\n"
                   "    def _register_altered(self, states: Iterable[InstanceState[Any]]) -> None:\n")), None)
R.mutant("benign-make-transient-expunge-tuple", SESSION, sub("    if s:\n        s._expunge_states([state])\n\n    # remove expired state\n", "    if s:\n        s._expunge_states((state,))\n\n    # remove expired state\n"), None)
# ---- C34-R7 (the token travels with the primary key)
R.mutant("seed-merge-get-without-token", SESSION,
         sub("                merged = self.get(\n                    mapper.class_,\n                    key[1],\n                    identity_token=key[2],\n                    options=options,\n                )\n",
             "                merged = self.get(mapper.class_, key[1], options=options)\n"), "C34-R7")
R.mutant("merge-get-token-of-other-key", SESSION,
         sub("                    key[1],\n                    identity_token=key[2],\n", "                    key[1],\n                    identity_token=state.identity_token,\n"), "C34-R7")
R.mutant("load-on-ident-drops-token", LOADING,
         sub("        only_load_props=only_load_props,\n        identity_token=identity_token,\n        no_autoflush=no_autoflush,\n        bind_arguments=bind_arguments,\n        execution_options=execution_options,\n        require_pk_cols=require_pk_cols,\n        is_user_refresh=is_user_refresh,\n    )\n\n\ndef _load_on_pk_identity(",
             "        only_load_props=only_load_props,\n        no_autoflush=no_autoflush,\n        bind_arguments=bind_arguments,\n        execution_options=execution_options,\n        require_pk_cols=require_pk_cols,\n        is_user_refresh=is_user_refresh,\n    )\n\n\ndef _load_on_pk_identity("), "C34-R7")
R.mutant("get-does-not-forward-token", SESSION,
         sub("            with_for_update=with_for_update,\n            identity_token=identity_token,\n            execution_options=execution_options,\n            bind_arguments=bind_arguments,\n        )\n\n    def get_one(",
             "            with_for_update=with_for_update,\n            execution_options=execution_options,\n            bind_arguments=bind_arguments,\n        )\n\n    def get_one("), "C34-R7")
R.mutant("get-impl-loads-without-token", SESSION,
         sub("            load_options=load_options,\n            identity_token=identity_token,\n            execution_options=execution_options,\n            bind_arguments=bind_arguments,\n        )\n",
             "            load_options=load_options,\n            execution_options=execution_options,\n            bind_arguments=bind_arguments,\n        )\n"), "C34-R7")
R.mutant("identity-key-from-pk-ignores-token", "orm/mapper.py",
         sub("        return (\n            self._identity_class,\n            tuple(primary_key),\n            identity_token,\n        )\n", "        return (\n            self._identity_class,\n            tuple(primary_key),\n            None,\n        )\n"), "C34-R7")
R.mutant("benign-merge-unpacks-key-into-locals", SESSION,
         sub("                merged = self.get(\n                    mapper.class_,\n                    key[1],\n                    identity_token=key[2],\n",
             "                pk_ = key[1]\n                tok_ = key[2]\n                merged = self.get(\n                    mapper.class_,\n                    pk_,\n                    identity_token=tok_,\n"), None)
# ---- C34-R8 (None is the only "no token")
R.mutant("sharded-lookup-tests-token-truthiness", "ext/horizontal_shard.py",
         sub("        if identity_token is not None:\n            obj = super()._identity_lookup(", "        if identity_token:\n            obj = super()._identity_lookup("), "C34-R8")
R.mutant("get-impl-normalises-falsy-token", SESSION,
         sub("            load_options=load_options,\n            identity_token=identity_token,\n            execution_options=execution_options,\n            bind_arguments=bind_arguments,\n        )\n",
             "            load_options=load_options,\n            identity_token=identity_token or None,\n            execution_options=execution_options,\n            bind_arguments=bind_arguments,\n        )\n"), "C34-R8")
R.mutant("benign-sharded-lookup-none-test-reversed", "ext/horizontal_shard.py",
         sub("        if identity_token is not None:\n            obj = super()._identity_lookup(", "        if not (identity_token is None):\n            obj = super()._identity_lookup("), None)
# ---- C34-R9 (only attached states are registered)
R.mutant("delete-registers-before-attach-check", SESSION,
         sub("        to_attach = self._before_attach(state, obj)\n\n        if state in self._deleted:\n            return\n\n        self.identity_map.add(state)\n",
             "        self.identity_map.add(state)\n\n        to_attach = self._before_attach(state, obj)\n\n        if state in self._deleted:\n            return\n"), "C34-R9")
R.mutant("loader-registers-unattached-state", LOADING,
         sub("                # attach instance to session.\n                state.session_id = session_id\n                session_identity_map._add_unpresent(state, identitykey)\n",
             "                session_identity_map._add_unpresent(state, identitykey)\n"), "C34-R9")
R.mutant("benign-update-impl-alias-map", SESSION,
         sub("        self._deleted.pop(state, None)\n        if revert_deletion:\n            self.identity_map.replace(state)\n        else:\n            self.identity_map.add(state)\n",
             "        self._deleted.pop(state, None)\n        imap = self.identity_map\n        if revert_deletion:\n            imap.replace(state)\n        else:\n            imap.add(state)\n"), None)

# ---------------------------------------------------------------------- rob-B2: behaviour-preserving refactorings that must stay silent
# (families of benign/rfB_5, rfB_12, rfB_15, seeded/C34_1's boolean local) and breaking edits made THROUGH the same shapes
_RESTORE_HEAD = ("        for s, (oldkey, newkey) in self._key_switches.items():\n            # we probably can do this conditionally based on\n"
                 "            # if we expunged or not, but safe_discard does that anyway\n")
R.mutant("benign-restore-guard-in-boolean-local", SESSION,
         sub(_RESTORE_LOOP, "            restore = (\n                s not in to_expunge\n                and s.session_id == self.session.hash_key\n            )\n"
                            "            self.session.identity_map.safe_discard(s)\n\n            if restore:\n                s.key = oldkey\n                self.session.identity_map.replace(s)\n"), None)
R.mutant("restore-boolean-local-without-attachment-test", SESSION,
         sub(_RESTORE_LOOP, "            restore = s not in to_expunge\n            self.session.identity_map.safe_discard(s)\n\n            if restore:\n                s.key = oldkey\n"
                            "                self.session.identity_map.replace(s)\n"), "C34-R9")
R.mutant("restore-boolean-local-rekeys-before-discard", SESSION,
         sub(_RESTORE_LOOP, "            restore = (\n                s not in to_expunge\n                and s.session_id == self.session.hash_key\n            )\n            if restore:\n                s.key = oldkey\n\n"
                            "            self.session.identity_map.safe_discard(s)\n\n            if restore:\n                self.session.identity_map.replace(s)\n"), "C34-R6")
# benign/rfB_5 re-rolled on today's tree: session alias, renamed loop variable, `continue` instead of the nested block
R.mutant("benign-restore-session-alias-and-continue", SESSION,
         chain(sub("        to_expunge = set(self._new).union(self.session._new)\n        self.session._expunge_states(to_expunge, to_transient=True)\n",
                   "        sess = self.session\n\n        to_expunge = set(self._new).union(sess._new)\n        sess._expunge_states(to_expunge, to_transient=True)\n"),
               sub(_RESTORE_HEAD + _RESTORE_LOOP,
                   "        for state, (oldkey, newkey) in self._key_switches.items():\n            sess.identity_map.safe_discard(state)\n\n"
                   "            if state in to_expunge or state.session_id != sess.hash_key:\n                continue\n            state.key = oldkey\n            sess.identity_map.replace(state)\n")), None)
R.mutant("restore-continue-form-without-attachment-test", SESSION,
         sub(_RESTORE_HEAD + _RESTORE_LOOP,
             "        for state, (oldkey, newkey) in self._key_switches.items():\n            self.session.identity_map.safe_discard(state)\n\n"
             "            if state in to_expunge:\n                continue\n            state.key = oldkey\n            self.session.identity_map.replace(state)\n"), "C34-R9")
# Session._get_impl: the guard named / split / inverted (benign/rfB_12)
_GI_OLD = "        if (\n            not populate_existing\n            and not mapper.always_refresh\n            and for_update_arg is None\n        ):\n            instance = self._identity_lookup("
_GI_HIT = "                if not isinstance(instance, mapper.class_):\n                    return None\n                return instance\n"
R.mutant("benign-get-guard-named-and-hit-inverted", SESSION,
         chain(sub(_GI_OLD, "        check_identity_map = (\n            not populate_existing\n            and not mapper.always_refresh\n            and for_update_arg is None\n        )\n"
                            "        if check_identity_map:\n            instance = self._identity_lookup("),
               sub(_GI_HIT, "                if isinstance(instance, mapper.class_):\n                    return instance\n                else:\n                    return None\n")), None)
R.mutant("benign-get-guard-split-and-hit-named", SESSION,
         chain(sub(_GI_OLD, "        refresh = populate_existing or mapper.always_refresh\n        if not refresh and for_update_arg is None:\n            instance = self._identity_lookup("),
               sub("            if instance is not None:\n                # reject calls for id in identity map but class\n", "            found = instance is not None\n            if found:\n                # reject calls for id in identity map but class\n")), None)
R.mutant("get-guard-named-with-extra-reason", SESSION,
         sub(_GI_OLD, "        check_identity_map = (\n            not populate_existing\n            and not mapper.always_refresh\n            and for_update_arg is None\n            and not options\n        )\n"
                      "        if check_identity_map:\n            instance = self._identity_lookup("), "C34-R5")
R.mutant("get-guard-named-drops-always-refresh", SESSION,
         sub(_GI_OLD, "        check_identity_map = not populate_existing and for_update_arg is None\n        if check_identity_map:\n            instance = self._identity_lookup("), "C34-R5")
R.mutant("get-hit-named-falls-through", SESSION,
         chain(sub("            if instance is not None:\n                # reject calls for id in identity map but class\n", "            found = instance is not None\n            if found:\n                # reject calls for id in identity map but class\n"),
               sub(_GI_HIT, "                if not isinstance(instance, mapper.class_):\n                    return None\n")), "C34-R5")
# the primary-key switch of _register_persistent extracted into a helper (benign/rfB_15)
_SW_OLD = ("                    # primary key switch. use safe_discard() in case another\n                    # state has already replaced this one in the identity\n"
           "                    # map (see test/orm/test_naturalpks.py ReversePKsTest)\n                    self.identity_map.safe_discard(state)\n"
           "                    trans = self._transaction\n                    assert trans is not None\n"
           "                    if state in trans._key_switches:\n                        orig_key = trans._key_switches[state][0]\n                    else:\n                        orig_key = state.key\n"
           "                    trans._key_switches[state] = (\n                        orig_key,\n                        instance_key,\n                    )\n                    state.key = instance_key\n")
_SW_HEAD = "    def _register_altered(self, states: Iterable[InstanceState[Any]]) -> None:\n"
_SW_RECORD = ("        trans = self._transaction\n        assert trans is not None\n        key_switches = trans._key_switches\n        if state in key_switches:\n"
              "            orig_key = key_switches[state][0]\n        else:\n            orig_key = state.key\n        key_switches[state] = (orig_key, instance_key)\n")
_SW_CALL = "                    self._switch_identity_key(state, instance_key)\n"


def _switch_helper(call: str, body: str, *more):
    return chain(sub(_SW_OLD, call), sub(_SW_HEAD, "    def _switch_identity_key(self, state: InstanceState[Any], instance_key: Any) -> None:\n" + body + "\n" + _SW_HEAD), *more)


R.mutant("benign-key-switch-in-helper", SESSION, _switch_helper(_SW_CALL, "        self.identity_map.safe_discard(state)\n" + _SW_RECORD + "        state.key = instance_key\n"), None)
R.mutant("benign-key-switch-in-helper-caller-discards", SESSION,
         _switch_helper("                    self.identity_map.safe_discard(state)\n" + _SW_CALL, _SW_RECORD + "        state.key = instance_key\n"), None)
R.mutant("benign-key-switch-helper-does-everything", SESSION,
         _switch_helper(_SW_CALL, "        self.identity_map.safe_discard(state)\n" + _SW_RECORD + "        state.key = instance_key\n        self.identity_map.replace(state)\n"), None)
R.mutant("key-switch-helper-discards-after-store", SESSION, _switch_helper(_SW_CALL, _SW_RECORD + "        state.key = instance_key\n        self.identity_map.safe_discard(state)\n"), "C34-R6")
R.mutant("key-switch-helper-nobody-discards", SESSION, _switch_helper(_SW_CALL, _SW_RECORD + "        state.key = instance_key\n"), "C34-R6")
R.mutant("key-switch-helper-caller-never-registers", SESSION,
         _switch_helper(_SW_CALL, "        self.identity_map.safe_discard(state)\n" + _SW_RECORD + "        state.key = instance_key\n",
                        sub("                old = self.identity_map.replace(state)\n", "                old = None\n")), "C34-R6")

# identity.py add()/replace(): the lookup written with dict.get and guard clauses
_ADD_OLD = ("        if key in self._dict:\n            try:\n                existing_state = self._dict[key]\n            except KeyError:\n"
            "                # catch gc removed the key after we just checked for it\n                pass\n            else:\n"
            "                if existing_state is not state:\n                    o = existing_state.obj()\n                    if o is not None:\n")
R.mutant("benign-add-lookup-with-get", IDENT,
         chain(sub(_ADD_OLD, "        existing_state = self._dict.get(key)\n        if existing_state is not None:\n            if True:\n"
                             "                if existing_state is not state:\n                    o = existing_state.obj()\n                    if o is not None:\n")), None)
_REPL_OLD = ("        if state.key in self._dict:\n            try:\n                existing = existing_non_none = self._dict[state.key]\n            except KeyError:\n"
             "                # catch gc removed the key after we just checked for it\n                existing = None\n            else:\n"
             "                if existing_non_none is not state:\n                    self._manage_removed_state(existing_non_none)\n                else:\n                    return None\n"
             "        else:\n            existing = None\n")
R.mutant("benign-replace-lookup-with-get-and-guard-clause", IDENT,
         sub(_REPL_OLD, "        existing = self._dict.get(state.key)\n        if existing is not None:\n            if existing is state:\n                return None\n            self._manage_removed_state(existing)\n"), None)
R.mutant("replace-lookup-with-get-no-release", IDENT,
         sub(_REPL_OLD, "        existing = self._dict.get(state.key)\n        if existing is not None:\n            if existing is state:\n                return None\n"), "C34-R2")

# ---------------------------------------------------------------------- C34-R10 (the token a state carries is the token of its key) -- str2-o
STATE = "orm/state.py"
_SS_UPD = ("        self.__dict__.update(\n            [\n                (k, state_dict[k])\n                for k in (\"key\", \"load_options\")\n                if k in state_dict\n            ]\n        )\n")
_SS_TOK = "        if self.key:\n            self.identity_token = self.key[2]\n"
_SS_UPD_TOK = _SS_UPD.replace("(\"key\", \"load_options\")", "(\"key\", \"load_options\", \"identity_token\")")
_GS_KEYS = "                \"key\",\n                \"parents\",\n"
# round-2 seed C34_3: half of a "pickle the token explicitly" refactoring -- __setstate__ reads an entry that __getstate__ never writes
R.mutant("seed-setstate-token-from-entry-getstate-never-writes", STATE, sub(_SS_UPD + _SS_TOK, _SS_UPD_TOK), "C34-R10")
R.mutant("setstate-does-not-derive-token", STATE, sub(_SS_UPD + _SS_TOK, _SS_UPD), "C34-R10")
R.mutant("setstate-derives-token-before-key-is-restored", STATE, sub(_SS_UPD + _SS_TOK, _SS_TOK + _SS_UPD), "C34-R10")
R.mutant("setstate-derives-token-only-when-expired", STATE, sub(_SS_TOK, "        if self.key and self.expired:\n            self.identity_token = self.key[2]\n"), "C34-R10")
R.mutant("setstate-loop-form-without-token", STATE,
         sub(_SS_UPD + _SS_TOK, "        for k in (\"key\", \"load_options\"):\n            if k in state_dict:\n                self.__dict__[k] = state_dict[k]\n"), "C34-R10")
R.mutant("setstate-helper-reads-the-key-before-it-is-restored", STATE,
         chain(sub(_SS_UPD + _SS_TOK, "        self._token_from_key()\n" + _SS_UPD),
               sub("    def _reset(self, dict_: _InstanceDict, key: str) -> None:\n", "    def _token_from_key(self) -> None:\n" + _SS_TOK + "\n    def _reset(self, dict_: _InstanceDict, key: str) -> None:\n")), "C34-R10")
R.mutant("setstate-helper-derives-token-from-pk-component", STATE,
         chain(sub(_SS_UPD + _SS_TOK, _SS_UPD + "        self._token_from_key()\n"),
               sub("    def _reset(self, dict_: _InstanceDict, key: str) -> None:\n",
                   "    def _token_from_key(self) -> None:\n        if self.key:\n            self.identity_token = self.key[1]\n\n    def _reset(self, dict_: _InstanceDict, key: str) -> None:\n")), "C34-R10")
R.mutant("loader-does-not-set-token", LOADING, sub("                state.key = identitykey\n                state.identity_token = identity_token\n", "                state.key = identitykey\n"), "C34-R10")
R.mutant("loader-sets-token-of-the-refresh-key", LOADING,
         sub("                state.key = identitykey\n                state.identity_token = identity_token\n",
             "                state.key = identitykey\n                state.identity_token = (\n                    refresh_identity_key[2] if refresh_identity_key else None\n                )\n"), "C34-R10")
R.mutant("make-transient-to-detached-key-from-pk-without-token", SESSION,
         sub("    state.key = state.mapper._identity_key_from_state(state)\n",
             "    state.key = state.mapper.identity_key_from_primary_key(\n        state.mapper.primary_key_from_instance(state.obj())\n    )\n"), "C34-R10")
R.mutant("recomputed-key-ignores-state-token", "orm/mapper.py",
         sub("                    for prop in self._identity_key_props\n                ]\n            ),\n            state.identity_token,\n        )\n",
             "                    for prop in self._identity_key_props\n                ]\n            ),\n            None,\n        )\n"), "C34-R10")
R.mutant("key-switch-helper-given-key-without-token", SESSION,
         _switch_helper("                    self._switch_identity_key(state, mapper.identity_key_from_primary_key(instance_key[1]))\n",
                        "        self.identity_map.safe_discard(state)\n" + _SW_RECORD + "        state.key = instance_key\n"), "C34-R10")
R.mutant("benign-key-switch-helper-given-key-through-alias", SESSION,
         _switch_helper("                    same_state = state\n                    self._switch_identity_key(state, mapper._identity_key_from_state(same_state))\n",
                        "        self.identity_map.safe_discard(state)\n" + _SW_RECORD + "        state.key = instance_key\n"), None)
# benign: the same code re-expressed
R.mutant("benign-setstate-token-through-key-local", STATE, sub(_SS_TOK, "        restored = self.key\n        if restored:\n            self.identity_token = restored[2]\n"), None)
R.mutant("benign-setstate-guard-clause-ternary", STATE, sub(_SS_TOK, "        self.identity_token = self.key[2] if self.key is not None else None\n"), None)
R.mutant("benign-setstate-comprehension-as-loop", STATE,
         sub(_SS_UPD, "        for k in (\"key\", \"load_options\"):\n            if k in state_dict:\n                self.__dict__[k] = state_dict[k]\n"), None)
R.mutant("benign-setstate-setattr-loop-and-inverted-test", STATE,
         sub(_SS_UPD + _SS_TOK, "        for name in (\"key\", \"load_options\"):\n            if name not in state_dict:\n                continue\n            setattr(self, name, state_dict[name])\n"
                                "        if not self.key:\n            pass\n        else:\n            self.identity_token = self.key[2]\n"), None)
R.mutant("benign-setstate-token-in-helper", STATE,
         chain(sub(_SS_UPD + _SS_TOK, _SS_UPD + "        self._token_from_key()\n"),
               sub("    def _reset(self, dict_: _InstanceDict, key: str) -> None:\n", "    def _token_from_key(self) -> None:\n" + _SS_TOK + "\n    def _reset(self, dict_: _InstanceDict, key: str) -> None:\n")), None)
# the seed's refactoring carried through: the token is pickled beside the key and restored from there
R.mutant("benign-token-pickled-explicitly-by-getstate-and-setstate", STATE,
         chain(sub(_SS_UPD + _SS_TOK, _SS_UPD_TOK), sub(_GS_KEYS, "                \"key\",\n                \"identity_token\",\n                \"parents\",\n")), None)
R.mutant("benign-setstate-plain-assignments", STATE,
         sub(_SS_UPD + _SS_TOK, "        if \"load_options\" in state_dict:\n            self.load_options = state_dict[\"load_options\"]\n        if \"key\" in state_dict:\n            self.key = pickled_key = state_dict[\"key\"]\n"
                                "            if pickled_key:\n                self.identity_token = pickled_key[2]\n"), None)
R.mutant("benign-loader-token-first-and-key-alias", LOADING,
         sub("                state.key = identitykey\n                state.identity_token = identity_token\n", "                state.identity_token = identity_token\n                new_key = identitykey\n                state.key = new_key\n"), None)
R.mutant("benign-loader-token-from-key-component", LOADING,
         sub("                state.key = identitykey\n                state.identity_token = identity_token\n", "                state.key = identitykey\n                state.identity_token = identitykey[2]\n"), None)
R.mutant("benign-flush-refresh-key-inline", "orm/persistence.py",
         sub("            if state.key is None:\n                state.key = identity_key\n", "            if state.key is None:\n                state.key = base_mapper._identity_key_from_state(state)\n"), None)
# benign/rfH_3's shape (entries collected in a local dict, then one __dict__.update) and its breaking twin
_SS_DICT = ("        restored = {}\n        for attrname in (\"key\", \"load_options\"):\n            if attrname in state_dict:\n"
            "                restored[attrname] = state_dict[attrname]\n        self.__dict__.update(restored)\n")
R.mutant("benign-setstate-entries-collected-in-a-local-dict", STATE, sub(_SS_UPD, _SS_DICT), None)
R.mutant("setstate-local-dict-form-token-from-entry-getstate-never-writes", STATE,
         sub(_SS_UPD + _SS_TOK, _SS_DICT.replace("(\"key\", \"load_options\")", "(\"key\", \"load_options\", \"identity_token\")")), "C34-R10")
