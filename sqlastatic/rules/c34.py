"""C34 -- The identity map holds at most one object per row (ownership + guarded insert)."""

from __future__ import annotations

import ast
from typing import Dict, List, Set, Tuple

from ..astutil import calls_in, dotted, name_stores, unparse, walk_local, walk_stmts
from ..cfg import no_exc
from ..report import Registry, sub
from ._helpers_rules_d import call_nodes, callee_is, guard_atom_set, kw, qualname

R = Registry(
    "C34",
    title="The identity map holds at most one object per row",
    decides=(
        "_WeakInstanceDict._dict is mutated only by the enumerated methods of orm/identity.py; add() stores a state "
        "only after refusing a different live state under the same key, replace() releases the state it overwrites, "
        "every store/removal is paired with the incoming/removed bookkeeping; the loader constructs a new instance "
        "only when the identity lookup for the row's key failed and registers it under that same key; Session.get "
        "reaches the database only on an identity-map miss or when populate_existing / always_refresh / "
        "with_for_update demand it, and an identity hit is refreshed only when expired."
    ),
    not_decided="object identity across arbitrary histories (primary-key switches, merges, sharded identity tokens).",
)

IDENT = "orm/identity.py"
SESSION = "orm/session.py"
LOADING = "orm/loading.py"
WID = f"{IDENT}::_WeakInstanceDict"

DICT_MUTATORS = {"pop", "popitem", "clear", "update", "setdefault", "__setitem__", "__delitem__"}

# methods of the identity map classes that may change `_dict` (frozen today, with reason)
DICT_OWNERS = {
    "IdentityMap.__init__": "creates the empty map",
    "_WeakInstanceDict.replace": "overwrite, releases the previous state first",
    "_WeakInstanceDict.add": "guarded insert",
    "_WeakInstanceDict._add_unpresent": "inlined insert used by the loader after a failed lookup",
    "_WeakInstanceDict._fast_discard": "weakref callback of a collected object",
    "_WeakInstanceDict.safe_discard": "removal of exactly this state",
}
# store / removal sites that inline the bookkeeping instead of calling _manage_*_state
INLINE_BOOKKEEPING = {
    "_WeakInstanceDict._add_unpresent": "inlines _manage_incoming_state: a state just constructed by the loader cannot be modified",
    "_WeakInstanceDict._fast_discard": "inlines _manage_removed_state: the object was garbage collected, a modified state is strongly referenced "
                                       "and cannot get here; InstanceState._cleanup drops _instance_dict itself",
}


def _dict_mutations(tree, pm):
    """[(receiver of ._dict, kind, node, qualname)] for every in-place change of an attribute named `_dict`."""
    out = []
    for n in ast.walk(tree):
        recv = None
        kind = None
        if isinstance(n, ast.Subscript) and isinstance(n.ctx, (ast.Store, ast.Del)) and isinstance(n.value, ast.Attribute) and n.value.attr == "_dict":
            recv, kind = dotted(n.value.value), ("store" if isinstance(n.ctx, ast.Store) else "remove")
        elif isinstance(n, ast.Attribute) and n.attr == "_dict" and isinstance(n.ctx, (ast.Store, ast.Del)):
            recv, kind = dotted(n.value), "rebind"
        elif isinstance(n, ast.Call) and isinstance(n.func, ast.Attribute) and n.func.attr in DICT_MUTATORS and isinstance(n.func.value, ast.Attribute) and n.func.value.attr == "_dict":
            recv = dotted(n.func.value.value)
            kind = "remove" if n.func.attr in ("pop", "popitem", "clear", "__delitem__") else "store"
        if kind:
            out.append((recv, kind, n, qualname(pm, n)))
    return out


@R.rule("C34-R1", floor=7, template="T-OWN",
        desc="the identity map's _dict is mutated only inside orm/identity.py by the enumerated methods; nothing "
             "else in the library reaches into <identity map>._dict")
def r1(ctx):
    base = ctx.index.cls(f"{IDENT}::IdentityMap")
    imap_classes = {c.name for c in ctx.index.subclasses(base)} | {"IdentityMap"}
    m = ctx.index.module(IDENT)
    pm = m.parents()
    seen = {}
    for recv, kind, n, q in _dict_mutations(m.tree, pm):
        seen.setdefault(q, []).append(f"{kind}@{n.lineno}")
    for q, sites in sorted(seen.items()):
        ctx.check(q in DICT_OWNERS, f"{IDENT}::{q}:mutates-_dict", f"{q} changes the identity map's _dict ({sites}) but is not an enumerated owner",
                  DICT_OWNERS.get(q, ""), f"{m.path}")
    foreign = []
    for mod in ctx.index.all_modules():
        if mod.relpath == IDENT or "_dict" not in mod.source:
            continue
        pmm = mod.parents()
        for recv, kind, n, q in _dict_mutations(mod.tree, pmm):
            cls = q.split(".")[0]
            if recv != "self" or cls in imap_classes:
                # `self._dict` of an unrelated class (e.g. clsregistry) is not an identity map
                foreign.append(f"{mod.relpath}::{q} ({kind} via {recv}._dict, line {n.lineno})")
    ctx.check(not foreign, f"{IDENT}::_WeakInstanceDict:_dict-not-touched-elsewhere",
              f"identity-map storage is changed outside orm/identity.py: {foreign}", "no foreign writer of <map>._dict")


def _store_nodes(g, kind="store"):
    out = []
    for n in g.nodes:
        if n.kind != "stmt" or n.stmt is None:
            continue
        hit = False
        for x in ast.walk(n.stmt):
            if kind == "store" and isinstance(x, ast.Subscript) and isinstance(x.ctx, ast.Store) and isinstance(x.value, ast.Attribute) and x.value.attr == "_dict":
                hit = True
            if kind == "remove" and ((isinstance(x, ast.Subscript) and isinstance(x.ctx, ast.Del) and isinstance(x.value, ast.Attribute) and x.value.attr == "_dict")
                                     or (isinstance(x, ast.Call) and isinstance(x.func, ast.Attribute) and x.func.attr in ("pop", "popitem", "clear") and isinstance(x.func.value, ast.Attribute) and x.func.value.attr == "_dict")):
                hit = True
        if hit:
            out.append(n.id)
    return out


def _bound_from(fn_node, pred) -> Set[str]:
    out = set()
    for st in walk_stmts(fn_node.body):
        if isinstance(st, ast.Assign) and pred(st.value):
            for t in st.targets:
                if isinstance(t, ast.Name):
                    out.add(t.id)
    return out


def _is_dict_lookup(v) -> bool:
    if isinstance(v, ast.Call) and callee_is(v, "cast") and len(v.args) == 2:
        v = v.args[1]
    return isinstance(v, ast.Subscript) and isinstance(v.value, ast.Attribute) and v.value.attr == "_dict"


@R.rule("C34-R2", floor=3, template="T-GUARD",
        desc="add(): a different live state under the same key raises before the store; replace(): the overwritten "
             "state is released first; no other method stores a state under a possibly occupied key")
def r2(ctx):
    cls = ctx.index.cls(WID)
    # --- add
    f = ctx.method(WID, "add")
    g = ctx.cfg(f)
    state_p = f.params[1]
    existing = _bound_from(f.node, _is_dict_lookup)
    objs = {t for t in _bound_from(f.node, lambda v: isinstance(v, ast.Call) and isinstance(v.func, ast.Attribute) and v.func.attr == "obj" and isinstance(v.func.value, ast.Name) and v.func.value.id in existing)}
    raises = g.find(lambda n: n.kind == "stmt" and isinstance(n.stmt, ast.Raise))
    good = False
    for r in raises:
        atoms = guard_atom_set(g, r)
        if any((f"{e} is {state_p}", False) in atoms for e in existing) and any((f"{o} is None", False) in atoms for o in objs):
            good = True
    stores = _store_nodes(g)
    ctx.require(stores, "add() never stores into _dict")
    # the store is unreachable from the branch "different state and object alive"
    leak = False
    for t in g.nodes:
        if t.kind == "test" and any(unparse(t.stmt.test) == f"{o} is not None" for o in objs):
            trues = [b for b, lab in g.succ[t.id] if lab == "true"]
            if set(stores) & g.reachable(trues):
                leak = True
    ctx.check(good and not leak, f"{f.key}:refuses-second-live-instance",
              "add() can store a state although a different state with a live object already holds the key",
              "different live state -> InvalidRequestError; store unreachable from that branch", f.loc)
    # --- replace
    f = ctx.method(WID, "replace")
    g = ctx.cfg(f)
    state_p = f.params[1]
    existing = _bound_from(f.node, _is_dict_lookup)
    binds = g.find(lambda n: n.kind == "stmt" and isinstance(n.stmt, ast.Assign) and _is_dict_lookup(n.stmt.value))
    rel = call_nodes(g, lambda c: callee_is(c, "self._manage_removed_state") and c.args and isinstance(c.args[0], ast.Name) and c.args[0].id in existing)
    stores = _store_nodes(g)
    ctx.require(binds and stores, "replace() does not look up / store into _dict")
    rel_ok = bool(rel) and all(any((f"{e} is {state_p}", False) in guard_atom_set(g, n) for e in existing) for n in rel)
    w = g.must_pass(binds, stores, rel, edge_ok=no_exc)
    ctx.check(rel_ok and w is None, f"{f.key}:releases-overwritten-state",
              "replace() can overwrite a different state without _manage_removed_state(existing)", "existing is not state -> _manage_removed_state(existing) before the store", f.loc, w)
    # --- no other storing method
    storing = sorted(name for name, m in cls.methods.items() if _store_nodes(ctx.cfg(m)))
    allowed = {"add": "guarded", "replace": "releases the old state", "_add_unpresent": "caller proved absence (C34-R4)"}
    extra = [s for s in storing if s not in allowed]
    ctx.check(not extra, f"{WID}:storing-methods", f"methods {extra} store states into _dict without the add()/replace() discipline", f"storing methods: {storing}")


@R.rule("C34-R3", floor=5, template="T-PATH",
        desc="every store into _dict is followed by _manage_incoming_state(state), every removal by "
             "_manage_removed_state(state) (or the documented inline form)")
def r3(ctx):
    cls = ctx.index.cls(WID)
    for name, m in sorted(cls.methods.items()):
        g = ctx.cfg(m)
        q = f"_WeakInstanceDict.{name}"
        for kind, manage in (("store", "_manage_incoming_state"), ("remove", "_manage_removed_state")):
            sites = _store_nodes(g, kind)
            if not sites:
                continue
            key = f"{m.key}:{kind}-bookkeeping"
            if q in INLINE_BOOKKEEPING:
                if kind == "store":
                    inl = [n.id for n in g.nodes if n.kind == "stmt" and isinstance(n.stmt, ast.Assign) and any(isinstance(t, ast.Attribute) and t.attr == "_instance_dict" for t in n.stmt.targets)
                           and dotted(n.stmt.value) == "self._wr"]
                    w = g.must_pass(sites, [g.exit], inl, edge_ok=no_exc)
                    ctx.check(w is None and bool(inl), key, "inlined insert does not link state._instance_dict to this map", INLINE_BOOKKEEPING[q], m.loc, w)
                else:
                    # removal of exactly the state that is stored (identity test), nothing else to verify here
                    ok_id = all(any(a.endswith(f" is {m.params[1]}") and p for a, p in guard_atom_set(g, n)) for n in sites)
                    ctx.check(ok_id, key, "inlined discard removes an entry that may belong to a different state", INLINE_BOOKKEEPING[q], m.loc)
                continue
            calls = call_nodes(g, lambda c, manage=manage: callee_is(c, f"self.{manage}"))
            w = g.must_pass(sites, [g.exit], calls, edge_ok=no_exc)
            ctx.check(w is None and bool(calls), key, f"a {kind} into _dict is not followed by {manage}() on every normal path", f"followed by {manage}()", m.loc, w)


def _nested(fn_node, name):
    for n in ast.walk(fn_node):
        if isinstance(n, (ast.FunctionDef, ast.AsyncFunctionDef)) and n.name == name and n is not fn_node:
            return n
    return None


@R.rule("C34-R4", floor=3, template="T-GUARD",
        desc="loading._instance_processor: a new instance is constructed only when the session's identity map has no "
             "object for the row's identity key, and it is registered in that map under that same key")
def r4(ctx):
    outer = ctx.func(f"{LOADING}::_instance_processor")
    inst = _nested(outer.node, "_instance")
    ctx.require(inst is not None, "_instance_processor has no nested _instance")
    g = ctx.cfg(inst)
    imaps = {n for n, v, st in name_stores(outer.node) if v is not None and (dotted(v) or "").endswith("session.identity_map")}
    ctx.require(imaps, "_instance_processor does not bind the session identity map")
    lookups = []  # (local, key expr text)
    for n, v, st in name_stores(inst):
        if isinstance(v, ast.Call) and isinstance(v.func, ast.Attribute) and v.func.attr in ("get", "fast_get_state") and dotted(v.func.value) in imaps and v.args:
            lookups.append((n, unparse(v.args[0])))
    ctx.require(lookups, "_instance has no identity-map lookup")
    new_nodes = call_nodes(g, lambda c: callee_is(c, "new_instance"))
    ctx.require(new_nodes, "_instance never constructs an instance")
    for i, n in enumerate(new_nodes):
        atoms = guard_atom_set(g, n)
        good = any((f"{loc} is None", True) in atoms for loc, k in lookups)
        ctx.check(good, f"{outer.key}._instance:new-instance-only-on-miss" + (f":{i}" if i else ""),
                  f"a new instance is constructed without the identity lookup having returned None (guards {sorted(atoms)})",
                  "guarded by `<lookup result> is None`", f"{outer.module.path}:{g.node(n).lineno}")
    regs = call_nodes(g, lambda c: isinstance(c.func, ast.Attribute) and c.func.attr in ("_add_unpresent", "add", "replace") and dotted(c.func.value) in imaps)
    good = bool(regs)
    same_key = bool(regs)
    for n in regs:
        atoms = guard_atom_set(g, n)
        good = good and any((f"{loc} is None", True) in atoms for loc, k in lookups)
        c = [c for c in calls_in(g.node(n).stmt) if isinstance(c.func, ast.Attribute) and c.func.attr in ("_add_unpresent", "add", "replace")][0]
        if c.func.attr == "_add_unpresent":
            same_key = same_key and len(c.args) == 2 and any(unparse(c.args[1]) == k for loc, k in lookups)
    # registration happens on every normal path after construction
    w = g.must_pass(new_nodes, [g.exit], regs, edge_ok=no_exc)
    ctx.check(good and w is None, f"{outer.key}._instance:registered-on-miss-branch",
              "the constructed instance is not registered in the session identity map on the same branch", "registered via _add_unpresent on the miss branch", outer.loc, w)
    keys_set = [st for st in walk_stmts(inst.body) if isinstance(st, ast.Assign) and any(isinstance(t, ast.Attribute) and t.attr == "key" for t in st.targets)]
    same_key = same_key and bool(keys_set) and all(any(unparse(st.value) == k for loc, k in lookups) for st in keys_set)
    ctx.check(same_key, f"{outer.key}._instance:same-key", "the key looked up, the key given to the state and the key registered differ", "lookup key == state.key == registered key", outer.loc)


@R.rule("C34-R5", floor=4, template="T-GUARD",
        desc="Session._get_impl: the identity map is consulted unless populate_existing / always_refresh / "
             "with_for_update; a hit returns without the database; get_from_identity refreshes only expired hits")
def r5(ctx):
    f = ctx.func(f"{SESSION}::Session._get_impl")
    g = ctx.cfg(f)
    look = g.find(lambda n: n.kind == "stmt" and isinstance(n.stmt, ast.Assign) and isinstance(n.stmt.value, ast.Call) and callee_is(n.stmt.value, "self._identity_lookup"))
    ctx.require(look, "_get_impl does not call self._identity_lookup")
    loc_name = g.node(look[0]).stmt.targets[0].id
    load = call_nodes(g, lambda c: isinstance(c.func, ast.Name) and c.func.id in f.params and c.func.id.endswith("load_fn"))
    ctx.require(load, "_get_impl does not call the db_load_fn parameter")
    want = {("populate_existing", False), ("mapper.always_refresh", False), ("for_update_arg is None", True)}
    from ..astutil import test_atoms
    other = []
    inner_ok = False
    for t, pol in g.edge_guards(look[0]):
        atoms = set(test_atoms(t, pol))
        if atoms == want:
            inner_ok = True
            continue
        # any other dominating test must be input validation: its opposite outcome never reaches the load
        tn = [n.id for n in g.nodes if n.kind == "test" and n.stmt.test is t]
        opp = [b for n in tn for b, lab in g.succ[n] if lab == ("false" if pol else "true")]
        if set(load) & g.reachable(opp):
            other.append(unparse(t))
    ctx.check(inner_ok and not other, f"{f.key}:lookup-skipped-only-for-documented-reasons",
              f"the identity map is bypassed for other reasons than populate_existing / always_refresh / with_for_update (extra conditions: {other}; documented test found: {inner_ok})",
              "identity lookup unless populate_existing / always_refresh / with_for_update", f.loc)
    tests = [t.id for t in g.nodes if t.kind == "test" and unparse(t.stmt.test) == f"{loc_name} is not None"]
    hit_leaks = any(set(load) & g.reachable([b for b, lab in g.succ[t] if lab == "true"]) for t in tests)
    w = g.must_pass(look, load, tests, edge_ok=no_exc)
    ctx.check(bool(tests) and not hit_leaks and w is None, f"{f.key}:hit-returns-without-database",
              "an identity-map hit can still reach the database load", "hit -> return instance; load only on miss", f.loc, w)
    il = ctx.func(f"{SESSION}::Session._identity_lookup")
    calls = [c for c in calls_in(il.node) if callee_is(c, "get_from_identity")]
    keyloc = {n for n, v, st in name_stores(il.node) if isinstance(v, ast.Call) and callee_is(v, "identity_key_from_primary_key")}
    good = bool(calls) and all(len(c.args) >= 3 and isinstance(c.args[2], ast.Name) and c.args[2].id in keyloc and dotted(c.args[0]) == "self" for c in calls)
    ctx.check(good, f"{il.key}:delegates", "_identity_lookup does not look the mapper's identity key up in this session", "get_from_identity(self, mapper, identity_key_from_primary_key(...))", il.loc)
    gf = ctx.func(f"{LOADING}::get_from_identity")
    g = ctx.cfg(gf)
    refresh = call_nodes(g, lambda c: callee_is(c, "_load_expired"))
    ctx.require(refresh, "get_from_identity never refreshes")
    exp_ok = all(any(a.endswith(".expired") and p for a, p in guard_atom_set(g, n)) for n in refresh)
    rets = g.find(lambda n: n.kind == "stmt" and isinstance(n.stmt, ast.Return) and isinstance(n.stmt.value, ast.Name))
    inst_local = {n for n, v, st in name_stores(gf.node) if isinstance(v, ast.Call) and isinstance(v.func, ast.Attribute) and v.func.attr == "get" and (dotted(v.func.value) or "").endswith("identity_map")}
    direct = [r for r in rets if g.node(r).stmt.value.id in inst_local and g.witness([g.entry], [r], avoid=refresh) is not None]
    ctx.check(exp_ok and bool(direct), f"{gf.key}:refresh-only-when-expired",
              "get_from_identity emits SQL for a non-expired identity hit (or never returns the hit directly)", "returns the hit; _load_expired only under state.expired", gf.loc)


# ---------------------------------------------------------------------- self-test battery
R.mutant("foreign-dict-store", SESSION,
         sub("    def _validate_persistent(self, state: InstanceState[Any]) -> None:\n", "    def _validate_persistent(self, state: InstanceState[Any]) -> None:\n        self.identity_map._dict[state.key] = state\n"), "C34-R1")
R.mutant("new-mutating-method", IDENT,
         sub("    def discard(self, state: InstanceState[Any]) -> None:\n        self.safe_discard(state)\n", "    def discard(self, state: InstanceState[Any]) -> None:\n        self._dict.pop(state.key, None)\n"), "C34-R1")
R.mutant("add-no-raise", IDENT,
         sub("                    if o is not None:\n                        raise sa_exc.InvalidRequestError(\n                            \"Can't attach instance \"\n                            \"%s; another instance with key %s is already \"\n                            \"present in this session.\"\n                            % (orm_util.state_str(state), state.key)\n                        )\n",
             "                    if o is not None:\n                        pass\n"), "C34-R2")
R.mutant("add-raise-condition-flipped", IDENT, sub("                if existing_state is not state:\n                    o = existing_state.obj()\n                    if o is not None:", "                if existing_state is not state:\n                    o = existing_state.obj()\n                    if o is None:"), "C34-R2")
R.mutant("replace-no-release", IDENT, sub("                if existing_non_none is not state:\n                    self._manage_removed_state(existing_non_none)\n                else:\n                    return None\n", "                if existing_non_none is state:\n                    return None\n"), "C34-R2")
R.mutant("add-no-incoming", IDENT, sub("        self._dict[key] = state\n        self._manage_incoming_state(state)\n        return True\n", "        self._dict[key] = state\n        return True\n"), "C34-R3")
R.mutant("safe-discard-no-removed", IDENT, sub("                    self._dict.pop(key, None)\n                    self._manage_removed_state(state)\n", "                    self._dict.pop(key, None)\n"), "C34-R3")
R.mutant("add-unpresent-no-link", IDENT, sub("        self._dict[key] = state\n        state._instance_dict = self._wr\n", "        self._dict[key] = state\n"), "C34-R3")
R.mutant("loader-always-new-instance", LOADING, sub("            instance = session_identity_map.get(identitykey)\n\n            if instance is not None:\n", "            instance = session_identity_map.get(identitykey)\n\n            if False:\n"), "C34-R4")
R.mutant("loader-registers-other-key", LOADING, sub("                session_identity_map._add_unpresent(state, identitykey)\n", "                session_identity_map._add_unpresent(state, refresh_identity_key)\n"), "C34-R4")
R.mutant("loader-does-not-register", LOADING, sub("                session_identity_map._add_unpresent(state, identitykey)\n", "                pass\n"), "C34-R4")
R.mutant("get-hit-falls-through", SESSION, sub("                if not isinstance(instance, mapper.class_):\n                    return None\n                return instance\n", "                if not isinstance(instance, mapper.class_):\n                    return None\n"), "C34-R5")
R.mutant("get-skips-map-for-options", SESSION, sub("            and for_update_arg is None\n        ):\n            instance = self._identity_lookup(", "            and for_update_arg is None\n            and not options\n        ):\n            instance = self._identity_lookup("), "C34-R5")
R.mutant("get-from-identity-always-refresh", LOADING, sub("        # expired - ensure it still exists\n        if state.expired:\n", "        # expired - ensure it still exists\n        if True:\n"), "C34-R5")
# benign
R.mutant("benign-rename-existing", IDENT, sub("                existing_state = self._dict[key]\n            except KeyError:\n                # catch gc removed the key after we just checked for it\n                pass\n            else:\n                if existing_state is not state:\n                    o = existing_state.obj()",
                                              "                prior = self._dict[key]\n            except KeyError:\n                # catch gc removed the key after we just checked for it\n                pass\n            else:\n                if prior is not state:\n                    o = prior.obj()"), None)
R.mutant("benign-loader-log", LOADING, sub("                instance = mapper.class_manager.new_instance()\n\n                dict_ = instance_dict(instance)\n", "                instance = mapper.class_manager.new_instance()\n                _k = identitykey\n\n                dict_ = instance_dict(instance)\n"), None)
R.mutant("benign-get-reorder-conjuncts", SESSION, sub("            not populate_existing\n            and not mapper.always_refresh\n            and for_update_arg is None\n", "            for_update_arg is None\n            and not mapper.always_refresh\n            and not populate_existing\n"), None)
