"""C06 -- Identifier quoting round-trips (escape/unescape inverse, reserved-word cover, reader/writer)."""

from __future__ import annotations

import ast
import re

from ..astutil import (
    call_name, calls_in, dotted, guard_atoms, lexical_guards, name_stores, returns_of, unparse, walk_local,
)
from ..evalx import has_unknown
from ..index import ClassInfo, FuncInfo
from ..oracles import load as load_oracle
from ..report import Registry, sub
from ._helpers_rules_a import Mini, Unsupported, self_attr, str_constants, strings_over

R = Registry(
    "C06",
    title="Identifier quoting round-trips every representable name",
    decides=(
        "for every IdentifierPreparer class, _unescape_identifier inverts _escape_identifier (bounded model "
        "over quote / percent alphabets, for each possible _double_percents setting); SQLite's reserved_words "
        "cover every SQLite keyword that the sqlite3 library rejects as a bare identifier; quote_identifier "
        "wraps the escaped value between the quote characters, _requires_quotes keeps its four tests, quote() "
        "honours them, format_* helpers emit names only through the quoting functions (listed exceptions), "
        "compilers do not hand-quote identifiers; the unformat regex is built from the writer's triple and "
        "decodes what the writer produces."
    ),
    not_decided="execution of DDL/DML with such names and reflection; keyword cover for PostgreSQL/MySQL/MSSQL/Oracle "
                "(no offline oracle).",
)

COMP = "sql/compiler.py"
PREP = f"{COMP}::IdentifierPreparer"


def _preparer_classes(ctx):
    base = ctx.index.cls(PREP)
    out = [base] + sorted(ctx.index.subclasses(base), key=lambda c: c.key)
    # mixins that are combined with IdentifierPreparer in a concrete class are reached through the MRO
    return base, out


# ------------------------------------------------------------------------------------------ R1
def _fixed_double_percents(ctx, cls: ClassInfo):
    """None if the class can run with either setting, else the constant it forces."""
    ix = ctx.index
    for c in ix.mro(cls):
        for f in c.all_defs.get("_double_percents", []) if hasattr(c, "all_defs") else []:
            if any(d == "property" for d in f.decorators):
                rets = returns_of(f.node)
                if len(rets) == 1 and isinstance(rets[0].value, ast.Constant) and isinstance(rets[0].value.value, bool):
                    return rets[0].value.value
                ctx.error(f"{f.key}: _double_percents property is not a constant")
        init = c.methods.get("__init__")
        if init is not None:
            for n in walk_local(init.node):
                if isinstance(n, ast.Assign) and any(self_attr(t) == "_double_percents" for t in n.targets):
                    if isinstance(n.value, ast.Constant) and isinstance(n.value.value, bool):
                        return n.value.value
                    return None  # computed from the paramstyle: both values possible
    return None


def _run_method(fn: FuncInfo, arg: str, attrs: dict, what: str):
    def attr_hook(node, env, mini):
        a = self_attr(node)
        if a is not None and a in attrs:
            return attrs[a]
        return NotImplemented
    mini = Mini(attr_hook=attr_hook, what=what)
    env = {fn.params[0]: object(), fn.params[1]: arg}
    kind, val, node = mini.run(fn.node.body, env)
    if kind != "return" or not isinstance(val, str):
        raise Unsupported(f"{what}: did not return a string for {arg!r}")
    return val


@R.rule("C06-R1", floor=5, template="T-SIBLING (inverse pair, bounded model)",
        desc="per IdentifierPreparer class (methods resolved through the MRO): "
             "_unescape_identifier(_escape_identifier(s)) == s for all s over {quote chars, %, letter} up to "
             "length 3, for each _double_percents value the class can have")
def r1(ctx):
    ix = ctx.index
    base, classes = _preparer_classes(ctx)
    init = base.methods.get("__init__")
    ctx.require(init is not None, "IdentifierPreparer.__init__ vanished")
    # escape_to_quote as a function of escape_quote (read from the constructor)
    e2q = [n for n in walk_local(init.node) if isinstance(n, ast.Assign) and any(self_attr(t) == "escape_to_quote" for t in n.targets)]
    ctx.require(len(e2q) == 1, "IdentifierPreparer.__init__ does not set escape_to_quote exactly once")

    def escape_to_quote(q):
        def hook(node, env, mini):
            return q if self_attr(node) == "escape_quote" else NotImplemented
        return Mini(attr_hook=hook, what="escape_to_quote").ev(e2q[0].value, {})

    groups = {}
    for cls in classes:
        esc = ix.resolve_method(cls, "_escape_identifier")
        une = ix.resolve_method(cls, "_unescape_identifier")
        ctx.require(esc is not None and une is not None, f"{cls.key}: escape/unescape pair not resolvable")
        dp = _fixed_double_percents(ctx, cls)
        groups.setdefault((esc.key, une.key, dp), []).append(cls)
        ctx.functions_analysed.update((esc.key, une.key))
    for (ek, uk, dp), members in sorted(groups.items(), key=lambda kv: str(kv[0])):
        esc, une = ix.func(ek), ix.func(uk)
        key = f"{uk}:inverse-of:{esc.qualname}" + ("" if dp is None else f":double_percents={dp}")
        witness = None
        n = 0
        for q in ('"', "`"):
            attrs_base = {"escape_quote": q, "escape_to_quote": escape_to_quote(q)}
            for dpv in ((False, True) if dp is None else (dp,)):
                attrs = dict(attrs_base, _double_percents=dpv)
                alphabet = [q, "]", "%", "a"]
                for s in strings_over(alphabet, 3):
                    n += 1
                    e = _run_method(esc, s, attrs, esc.key)
                    u = _run_method(une, e, attrs, une.key)
                    if u != s:
                        witness = (f"escape_quote={q!r}, _double_percents={dpv}: {s!r} -> escaped {e!r} -> "
                                   f"unescaped {u!r}")
                        break
                if witness:
                    break
            if witness:
                break
        names = ", ".join(c.qualname for c in members)
        ctx.check(witness is None, key,
                  f"{une.qualname} does not invert {esc.qualname} ({witness}); affects {names}",
                  f"{n} round trips; classes: {names}", une.loc, [witness] if witness else None)


# ------------------------------------------------------------------------------------------ R2
@R.rule("C06-R2", floor=63, template="T-TABLE (superset of oracle)",
        desc="SQLiteIdentifierPreparer.reserved_words contains every SQLite keyword that the sqlite3 library "
             "rejects (or re-interprets) as a bare identifier (oracle sqlite_keywords.json)")
def r2(ctx):
    o = load_oracle("sqlite_keywords.json")
    cls = ctx.index.cls("dialects/sqlite/base.py::SQLiteIdentifierPreparer")
    v = ctx.ev.class_value(cls, "reserved_words")
    ctx.require(isinstance(v, (set, frozenset)) and not has_unknown(v) and all(isinstance(x, str) for x in v),
                "SQLiteIdentifierPreparer.reserved_words is not a literal set of strings")
    ctx.require(all(x == x.lower() for x in v), "reserved_words contains a non-lower-case entry (lookup is by lower())")
    ctx.note(f"oracle: sqlite {o['sqlite_version']}, {len(o['not_usable_bare'])} unusable bare keywords; "
             f"table has {len(v)} words")
    for kw in o["not_usable_bare"]:
        ctxs = [c for c, ws in o.get("failing_contexts", {}).items() if kw in ws]
        ctx.check(kw in v, f"{cls.key}.reserved_words:{kw}",
                  f"SQLite keyword `{kw}` is not in reserved_words: a column/table of that name is emitted unquoted "
                  f"and rejected or misread by SQLite {o['sqlite_version']} (contexts: {', '.join(ctxs)})",
                  "", cls.loc, nontrivial=False)


# ------------------------------------------------------------------------------------------ R3
def _flatten_add(e):
    if isinstance(e, ast.BinOp) and isinstance(e.op, ast.Add):
        return _flatten_add(e.left) + _flatten_add(e.right)
    return [e]


QUOTERS = {"quote", "quote_schema", "quote_identifier", "truncate_and_render_index_name",
           "truncate_and_render_constraint_name", "_truncate_and_render_maxlen_name"}

# returns of a raw (unquoted) name that are part of the documented contract
RAW_OK = {
    (f"{PREP}.format_column", "getattr(column, 'is_literal', False)", True):
        "literal_column() text is SQL supplied by the user and must not be quoted",
    (f"{PREP}._truncate_and_render_maxlen_name", "_alembic_quote", False):
        "alembic asks for the raw truncated name and quotes it itself",
    (f"{PREP}.format_collation", "self.quote_case_sensitive_collations", False):
        "dialect flag: collation names are rendered bare where the backend rejects quoted collations (MSSQL)",
}


def _raw_ok(fn, node) -> bool:
    atoms = guard_atoms(lexical_guards(fn.module.parents(), node, stop=fn.node))
    return any((fn.key, a, pol) in RAW_OK for a, pol in atoms)


def _sanitized(e, fn: FuncInfo, depth=0, _active=None) -> bool:
    _active = _active if _active is not None else set()
    if depth > 12:
        return False
    if e is None or (isinstance(e, ast.Constant) and (e.value is None or isinstance(e.value, str))):
        return True
    if isinstance(e, ast.Call):
        f = e.func
        if isinstance(f, ast.Attribute):
            recv = f.value
            is_self = isinstance(recv, ast.Name) and recv.id == "self"
            is_super = isinstance(recv, ast.Call) and isinstance(recv.func, ast.Name) and recv.func.id == "super"
            if (is_self or is_super) and (f.attr in QUOTERS or f.attr.startswith("format_")):
                return True
            if f.attr == "join" and isinstance(recv, ast.Constant) and len(e.args) == 1:
                a = e.args[0]
                if isinstance(a, (ast.GeneratorExp, ast.ListComp)):
                    return _sanitized(a.elt, fn, depth + 1, _active)
                return _sanitized(a, fn, depth + 1, _active)
        return False
    if isinstance(e, ast.BinOp) and isinstance(e.op, ast.Add):
        return _sanitized(e.left, fn, depth + 1, _active) and _sanitized(e.right, fn, depth + 1, _active)
    if isinstance(e, ast.BinOp) and isinstance(e.op, ast.Mod) and isinstance(e.left, ast.Constant):
        args = e.right.elts if isinstance(e.right, ast.Tuple) else [e.right]
        return all(_sanitized(a, fn, depth + 1, _active) for a in args)
    if isinstance(e, ast.JoinedStr):
        return all(_sanitized(p.value, fn, depth + 1, _active) for p in e.values if isinstance(p, ast.FormattedValue))
    if isinstance(e, (ast.Tuple, ast.List)):
        return all(_sanitized(x, fn, depth + 1, _active) for x in e.elts)
    if isinstance(e, ast.IfExp):
        return _sanitized(e.body, fn, depth + 1, _active) and _sanitized(e.orelse, fn, depth + 1, _active)
    if isinstance(e, ast.Name):
        if e.id in _active:
            return True  # `x = quoted + "." + x`: inductive on the other definitions of x
        binds = [(v, st) for n, v, st in name_stores(fn.node) if n == e.id]
        if not binds or e.id in fn.params:
            return False
        _active = _active | {e.id}
        return all((v is not None and _sanitized(v, fn, depth + 1, _active)) or _raw_ok(fn, st) for v, st in binds)
    return False


def _inline_quote_idiom(fn: FuncInfo, name: str) -> bool:
    """`if self._requires_quotes(x): x = self.quote_identifier(x)` -- the body of quote() inlined."""
    pm = fn.module.parents()
    for n, v, st in name_stores(fn.node):
        if n == name and isinstance(v, ast.Call) and dotted(v.func) == "self.quote_identifier" \
                and v.args and isinstance(v.args[0], ast.Name) and v.args[0].id == name:
            atoms = guard_atoms(lexical_guards(pm, st, stop=fn.node))
            if (f"self._requires_quotes({name})", True) in atoms:
                return True
    return False


@R.rule("C06-R3", floor=54, template="T-FLOW",
        desc="quote_identifier = initial_quote + _escape_identifier(value) + final_quote; _requires_quotes keeps "
             "its four disjuncts; quote() quotes when required or forced; format_* helpers return only quoted "
             "material (exceptions listed); compiler classes contain no hand-quoted identifier templates")
def r3(ctx):
    ix = ctx.index
    base, classes = _preparer_classes(ctx)
    # (a) quote_identifier, every definition in the hierarchy
    for cls in classes:
        f = cls.methods.get("quote_identifier")
        if f is None:
            continue
        ctx.functions_analysed.add(f.key)
        rets = returns_of(f.node)
        ctx.require(len(rets) == 1, f"{f.key}: expected one return")
        parts = _flatten_add(rets[0].value)
        v = f.params[1]
        ok = (len(parts) == 3 and self_attr(parts[0]) == "initial_quote" and self_attr(parts[2]) == "final_quote"
              and isinstance(parts[1], ast.Call) and dotted(parts[1].func) == "self._escape_identifier"
              and len(parts[1].args) == 1 and isinstance(parts[1].args[0], ast.Name) and parts[1].args[0].id == v)
        ctx.check(ok, f.key, f"quote_identifier returns `{unparse(rets[0].value)}`, not "
                             f"initial_quote + _escape_identifier({v}) + final_quote",
                  "initial + escape(value) + final", f.loc)
    # (b) _requires_quotes, every definition
    for cls in classes:
        f = cls.methods.get("_requires_quotes")
        if f is None:
            continue
        ctx.functions_analysed.add(f.key)
        v = f.params[1]
        lowered = {n for n, val, st in name_stores(f.node)
                   if isinstance(val, ast.Call) and isinstance(val.func, ast.Attribute) and val.func.attr == "lower"
                   and isinstance(val.func.value, ast.Name) and val.func.value.id == v}
        rets = returns_of(f.node)
        ctx.require(len(rets) == 1, f"{f.key}: expected one return")
        top = rets[0].value
        disj = top.values if isinstance(top, ast.BoolOp) and isinstance(top.op, ast.Or) else [top]
        found = set()
        for d in disj:
            if isinstance(d, ast.Compare) and len(d.ops) == 1:
                l, op, r_ = d.left, d.ops[0], d.comparators[0]
                if isinstance(op, ast.In) and self_attr(r_) == "reserved_words" and isinstance(l, ast.Name) and l.id in lowered:
                    found.add("reserved")
                if isinstance(op, ast.In) and self_attr(r_) == "illegal_initial_characters" and isinstance(l, ast.Subscript) \
                        and isinstance(l.value, ast.Name) and l.value.id == v and unparse(l.slice) == "0":
                    found.add("initial")
                if isinstance(op, ast.NotEq) and {unparse(l), unparse(r_)} & lowered and v in (unparse(l), unparse(r_)):
                    found.add("case")
            if isinstance(d, ast.UnaryOp) and isinstance(d.op, ast.Not) and isinstance(d.operand, ast.Call) \
                    and dotted(d.operand.func) == "self.legal_characters.match" \
                    and any(isinstance(x, ast.Name) and x.id == v for x in ast.walk(d.operand)):
                found.add("legal")
        for aspect, why in (("reserved", "lower-cased name in reserved_words"), ("initial", "first character illegal"),
                            ("legal", "not legal_characters.match(name)"), ("case", "name is not all lower case")):
            ctx.check(aspect in found, f"{f.key}:{aspect}",
                      f"_requires_quotes no longer tests: {why} (such names would be emitted bare)", why, f.loc)
    # (c) quote()
    for cls in classes:
        f = cls.methods.get("quote")
        if f is None:
            continue
        ctx.functions_analysed.add(f.key)
        pm = f.module.parents()
        ident = f.params[1]
        qcalls = [c for c in calls_in(f.node) if dotted(c.func) == "self.quote_identifier"]
        req, forced = False, False
        force_names = {n for n, val, st in name_stores(f.node)
                       if isinstance(val, ast.Call) and call_name(val) == "getattr" and len(val.args) >= 2
                       and isinstance(val.args[1], ast.Constant) and val.args[1].value == "quote"}
        for c in qcalls:
            atoms = guard_atoms(lexical_guards(pm, c, stop=f.node))
            if (f"self._requires_quotes({ident})", True) in atoms:
                req = True
            if any(a in force_names and pol for a, pol in atoms):
                forced = True
        ctx.check(req and forced, f.key,
                  "quote() does not call quote_identifier both when _requires_quotes() holds and when quoting is forced",
                  "quote_identifier under _requires_quotes and under force", f.loc)
    # (d) format_* helpers
    for cls in classes:
        for name, f in sorted(cls.methods.items()):
            if not (name.startswith("format_") or name in ("_truncate_and_render_maxlen_name",)):
                continue
            ctx.functions_analysed.add(f.key)
            pm = f.module.parents()
            bad = []
            for r in returns_of(f.node):
                if _sanitized(r.value, f):
                    continue
                if _raw_ok(f, r):
                    continue
                if isinstance(r.value, ast.Name) and _inline_quote_idiom(f, r.value.id):
                    continue
                bad.append(f"line {r.lineno}: `{unparse(r.value)[:70]}`")
            ctx.check(not bad, f.key, "returns a name that did not pass through quote()/quote_identifier()/format_*: "
                      + "; ".join(bad), "all returns quoted", f.loc)
    # (e) who may concatenate quotes: compiler classes never hand-quote an identifier
    handq = re.compile(r"""(["`])%(\(\w+\))?s\1|^\[%(\(\w+\))?s\]$""")
    compiled = ix.cls(f"{COMP}::Compiled")
    tc = ix.cls(f"{COMP}::TypeCompiler")
    for cls in sorted([compiled, tc] + ix.subclasses(compiled) + ix.subclasses(tc), key=lambda c: c.key):
        bad = []
        for name, f in cls.methods.items():
            in_raise = {id(x) for r_ in ast.walk(f.node) if isinstance(r_, ast.Raise) for x in ast.walk(r_)}
            for n in walk_local(f.node, into_nested=True):
                if id(n) in in_raise:
                    continue  # error-message text
                if isinstance(n, ast.Constant) and isinstance(n.value, str) and handq.search(n.value):
                    if name in HAND_QUOTE_OK.get(cls.key, {}):
                        continue
                    bad.append(f"{name}: {n.value!r}")
                if isinstance(n, ast.JoinedStr):
                    vals = n.values
                    for i in range(1, len(vals) - 1):
                        if isinstance(vals[i], ast.FormattedValue) and isinstance(vals[i - 1], ast.Constant) \
                                and isinstance(vals[i + 1], ast.Constant) and str(vals[i - 1].value)[-1:] in ('"', "`") \
                                and str(vals[i + 1].value)[:1] == str(vals[i - 1].value)[-1:]:
                            bad.append(f"{name}: f-string quotes a value by hand")
        ctx.check(not bad, f"{cls.key}:no-hand-quoting",
                  "identifier-like template built by hand instead of preparer.quote(): " + "; ".join(bad),
                  "", cls.loc, nontrivial=False)


HAND_QUOTE_OK = {
    "sql/compiler.py::StrSQLCompiler": {"get_from_hint_text": "generic stringification renders hints as [text]; not an identifier"},
    "dialects/oracle/cx_oracle.py::OracleCompiler_cx_oracle": {
        "bindparam_string": "quotes a bind-parameter name for the driver (:\"name\"), not an SQL identifier (C04 territory)"},
}


# ------------------------------------------------------------------------------------------ R4
@R.rule("C06-R4", floor=6, template="T-TABLE (reader/writer agreement, regex model)",
        desc="_r_identifiers is built from (initial_quote, final_quote, _escape_identifier(final_quote)) in the "
             "slots (initial, final, escaped) and, instantiated for three quote styles, splits what "
             "quote_identifier writes; unformat_identifiers unescapes every component")
def r4(ctx):
    f = ctx.func(f"{PREP}._r_identifiers")
    # slot -> local name -> tuple position -> source expression
    unpack = [n for n in walk_local(f.node) if isinstance(n, ast.Assign) and isinstance(n.targets[0], ast.Tuple)]
    ctx.require(len(unpack) == 1, "_r_identifiers: expected one tuple-unpacking assignment")
    targets = [t.id for t in unpack[0].targets[0].elts if isinstance(t, ast.Name)]
    gen = unpack[0].value
    ctx.require(isinstance(gen, ast.GeneratorExp) and isinstance(gen.generators[0].iter, ast.Tuple)
                and isinstance(gen.elt, ast.Call) and dotted(gen.elt.func) == "re.escape",
                "_r_identifiers: sources are not `re.escape(s) for s in (...)`")
    sources = [unparse(e) for e in gen.generators[0].iter.elts]
    ctx.require(len(sources) == len(targets) == 3, "_r_identifiers: expected three sources")
    tmpl = None
    slots = {}
    for n in walk_local(f.node):
        if isinstance(n, ast.BinOp) and isinstance(n.op, ast.Mod) and isinstance(n.left, ast.Constant) and isinstance(n.right, ast.Dict):
            tmpl = n.left.value
            for k, v in zip(n.right.keys, n.right.values):
                ctx.require(isinstance(k, ast.Constant) and isinstance(v, ast.Name) and v.id in targets,
                            "_r_identifiers: template dict not understood")
                slots[k.value] = sources[targets.index(v.id)]
    ctx.require(tmpl is not None, "_r_identifiers: no regex template")
    want = {"initial": "self.initial_quote", "final": "self.final_quote",
            "escaped": "self._escape_identifier(self.final_quote)"}
    for slot, src in want.items():
        ctx.check(slots.get(slot) == src, f"{f.key}:slot:{slot}",
                  f"regex slot %({slot})s is filled from `{slots.get(slot)}`, the writer uses `{src}`", src, f.loc)
    # model: instantiate the template for three quote styles and decode what the writer produces
    uf = ctx.func(f"{PREP}.unformat_identifiers")
    une_applied = any(dotted(c.func) == "self._unescape_identifier" for c in calls_in(uf.node)) \
        and any(dotted(c.func) in ("r.findall",) or (isinstance(c.func, ast.Attribute) and c.func.attr == "findall")
                for c in calls_in(uf.node))
    for label, (ini, fin) in (("double-quote", ('"', '"')), ("backtick", ("`", "`")), ("brackets", ("[", "]"))):
        esc = fin + fin
        try:
            rx = re.compile(tmpl % {"initial": re.escape(ini), "final": re.escape(fin), "escaped": re.escape(esc)})
        except Exception as e:  # the template is no longer a regex we can instantiate
            ctx.error(f"_r_identifiers template does not compile for {label}: {e}")
        witness = None
        n = 0
        names = [s for s in strings_over([fin, ini, ".", "a", " "], 2) if s]
        for a in names:
            for b in [None] + names[:12]:
                comps = [a] if b is None else [a, b]
                text = ".".join(ini + c.replace(fin, esc) + fin for c in comps)
                got = [(x or y).replace(esc, fin) for x, y in rx.findall(text)]
                n += 1
                if got != comps:
                    witness = f"{label}: components {comps} written as {text!r} are read back as {got}"
                    break
            if witness:
                break
        ctx.check(witness is None and une_applied, f"{f.key}:model:{label}",
                  witness or "unformat_identifiers does not apply _unescape_identifier to regex matches",
                  f"{n} dotted names round-trip", f.loc, [witness] if witness else None)


# ------------------------------------------------------------------------------------------ R5 / R6
def _quote_flag_reads(fn: FuncInfo):
    """{param: set(local names that hold its .quote flag) , ...} plus direct `p.quote` reads."""
    out = {}
    params = set(fn.params)
    for n in walk_local(fn.node):
        if isinstance(n, ast.Attribute) and n.attr == "quote" and isinstance(n.value, ast.Name) and n.value.id in params:
            out.setdefault(n.value.id, set())
        if isinstance(n, ast.Call) and dotted(n.func) == "getattr" and len(n.args) >= 2 \
                and isinstance(n.args[0], ast.Name) and n.args[0].id in params \
                and isinstance(n.args[1], ast.Constant) and n.args[1].value == "quote":
            out.setdefault(n.args[0].id, set())
    for nm, v, _ in name_stores(fn.node):
        if v is None:
            continue
        for n in ast.walk(v):
            if isinstance(n, ast.Call) and dotted(n.func) == "getattr" and len(n.args) >= 2 \
                    and isinstance(n.args[0], ast.Name) and n.args[0].id in out \
                    and isinstance(n.args[1], ast.Constant) and n.args[1].value == "quote":
                out[n.args[0].id].add(nm)
    return out


def _cache_reads(fn: FuncInfo, param: str):
    """AST nodes that look `param` up in a container: `param in C`, `C[param]` (load), `C.get(param)`."""
    out = []
    for n in walk_local(fn.node):
        if isinstance(n, ast.Compare) and len(n.ops) == 1 and isinstance(n.ops[0], (ast.In, ast.NotIn)) \
                and isinstance(n.left, ast.Name) and n.left.id == param and dotted(n.comparators[0]):
            out.append((n, dotted(n.comparators[0])))
        elif isinstance(n, ast.Subscript) and isinstance(n.ctx, ast.Load) and isinstance(n.slice, ast.Name) \
                and n.slice.id == param and dotted(n.value):
            out.append((n, dotted(n.value)))
        elif isinstance(n, ast.Call) and isinstance(n.func, ast.Attribute) and n.func.attr == "get" and n.args \
                and isinstance(n.args[0], ast.Name) and n.args[0].id == param and dotted(n.func.value):
            out.append((n, dotted(n.func.value)))
    return out


@R.rule("C06-R5", floor=2, template="T-PATH (cache key completeness)",
        desc="a quoting decision that depends on quoted_name.quote is never served from a cache keyed by the bare "
             "name (quoted_name hashes/compares equal to str): in every preparer method / dialect helper that "
             "reads <name>.quote and memoises on <name>, the quote-flag test dominates each cache read")
def r5(ctx):
    ix = ctx.index
    base, classes = _preparer_classes(ctx)
    cands = []
    for cls in classes:
        cands += list(cls.methods.values())
    for m in ix.all_modules():
        if m.relpath.startswith("dialects/") and m.relpath.endswith("/base.py"):
            cands += [f for f in m.functions.values() if f.cls is None]
    for fn in sorted(cands, key=lambda f: f.key):
        flags = _quote_flag_reads(fn)
        for param, holders in sorted(flags.items()):
            reads = _cache_reads(fn, param)
            if not reads:
                continue
            ctx.functions_analysed.add(fn.key)
            g = ctx.cfg(fn)
            verdicts = {}
            for node, cache in reads:
                key = f"{fn.key}:{cache}[{param}]"
                bad = verdicts.get(key)
                nodes = g.nodes_containing(node)
                ctx.require(nodes, f"{key}: cache read not found in the CFG")
                for nid in nodes:
                    ok = False
                    for test, pol in g.edge_guards(nid):
                        mentions = False
                        for a in ast.walk(test):
                            if isinstance(a, ast.Attribute) and a.attr == "quote" and isinstance(a.value, ast.Name) and a.value.id == param:
                                mentions = True
                            if isinstance(a, ast.Name) and a.id in holders:
                                mentions = True
                        if not mentions:
                            continue
                        is_none_test = isinstance(test, ast.Compare) and len(test.ops) == 1 and isinstance(test.ops[0], ast.Is) \
                            and isinstance(test.comparators[0], ast.Constant) and test.comparators[0].value is None
                        if (is_none_test and pol) or (not is_none_test and not pol):
                            ok = True
                    if not ok:
                        bad = g.nodes[nid].describe()
                verdicts[key] = bad
            for key, bad in sorted(verdicts.items()):
                cache = key.rsplit(":", 1)[1].split("[")[0]
                if bad:
                    ctx.violation(key, f"`{cache}` is read with the bare `{param}` as key on a path where `{param}.quote` "
                                       "has not been ruled out: a quoted_name(.., quote=True/False) equal to a cached plain "
                                       "string gets the cached plain-string answer (history dependent quoting)", fn.loc, [bad])
                else:
                    ctx.ok(key, "cache read only after the quote flag was found unset")


@R.rule("C06-R6", floor=3, template="T-SIBLING (predicate agreement)",
        desc="Dialect.normalize_name / denormalize_name fold case exactly for names that quote() would leave "
             "unquoted: they consult the same predicate (`_requires_quotes`) that IdentifierPreparer.quote uses")
def r6(ctx):
    ix = ctx.index
    q = ctx.func(f"{PREP}.quote")
    preds = {c.func.attr for c in calls_in(q.node)
             if isinstance(c.func, ast.Attribute) and dotted(c.func.value) == "self" and c.func.attr.startswith("_requires_quotes")}
    ctx.require(len(preds) == 1, f"IdentifierPreparer.quote: expected one _requires_quotes* predicate, found {sorted(preds)}")
    pred = next(iter(preds))
    ctx.ok(q.key + ":predicate", f"quote() decides with self.{pred}()")
    dd = ix.cls("engine/default.py::DefaultDialect")
    for cls in [dd] + sorted(ix.subclasses(dd), key=lambda c: c.key):
        for nm in ("normalize_name", "denormalize_name"):
            f = cls.methods.get(nm)
            if f is None:
                continue
            ctx.functions_analysed.add(f.key)
            used = [c for c in calls_in(f.node) if isinstance(c.func, ast.Attribute) and c.func.attr.startswith("_requires_quotes")]
            if not used:
                # an override that does not fold by quoting rules at all (delegation) is outside this relation
                if any(isinstance(c.func, ast.Attribute) and c.func.attr == nm for c in calls_in(f.node)):
                    ctx.ok(f.key, "delegates", nontrivial=False)
                    continue
                ctx.violation(f.key, f"{nm} folds case without consulting the preparer's {pred}()", f.loc)
                continue
            wrong = [unparse(c.func) for c in used if c.func.attr != pred or not (dotted(c.func.value) or "").endswith("identifier_preparer")]
            ctx.check(not wrong, f.key,
                      f"{nm} decides case folding with `{wrong}`, but quote() decides with `{pred}`: a name that is "
                      "always rendered quoted (reserved word, illegal initial character) is case-folded as if it were "
                      "rendered bare, so the normalised name denotes a different object",
                      f"identifier_preparer.{pred}(lower-cased name)", f.loc)


# ------------------------------------------------------------------------------------------ self test
R.mutant("r1-mssql-unescape-wrong-char", "dialects/mssql/base.py",
         sub('        return value.replace("]]", "]")\n', '        return value.replace("[[", "[")\n'), "C06-R1")
R.mutant("r1-base-unescape-noop", COMP,
         sub("        return value.replace(self.escape_to_quote, self.escape_quote)\n\n    def validate_sql_phrase",
             "        return value\n\n    def validate_sql_phrase"), "C06-R1")
R.mutant("r1-mysqlconnector-escape-triples", "dialects/mysql/mysqlconnector.py",
         sub("            self.escape_to_quote,  # type: ignore[attr-defined]\n        )\n        return value\n",
             "            self.escape_to_quote + self.escape_quote,  # type: ignore[attr-defined]\n        )\n        return value\n"), "C06-R1")
R.mutant("r2-drop-select", "dialects/sqlite/base.py", sub('        "select",\n', ""), "C06-R2")
R.mutant("r2-drop-where", "dialects/sqlite/base.py", sub('        "where",\n', ""), "C06-R2")
R.mutant("r3-quote-identifier-skips-escape", COMP,
         sub("            + self._escape_identifier(value)\n            + self.final_quote\n", "            + value\n            + self.final_quote\n"), "C06-R3")
R.mutant("r3-requires-quotes-drops-reserved", COMP,
         sub("            lc_value in self.reserved_words\n            or value[0] in self.illegal_initial_characters\n            or not self.legal_characters.match(str(value))\n            or (lc_value != value)\n",
             "            value[0] in self.illegal_initial_characters\n            or not self.legal_characters.match(str(value))\n            or (lc_value != value)\n"), "C06-R3")
R.mutant("r3-format-schema-raw", COMP,
         sub('        """Prepare a quoted schema name."""\n\n        return self.quote(name)\n', '        """Prepare a quoted schema name."""\n\n        return name\n'), "C06-R3")
R.mutant("r3-format-table-raw-schema", COMP,
         sub('            result = self.quote_schema(effective_schema) + "." + result\n        return result\n',
             '            result = effective_schema + "." + result\n        return result\n'), "C06-R3")
R.mutant("r3-compiler-hand-quotes", "dialects/sqlite/base.py",
         sub('        return "SELECT %s FROM (SELECT %s) WHERE 1!=1" % (', '        _x = \'"%s"\' % "t"\n        return "SELECT %s FROM (SELECT %s) WHERE 1!=1" % ('), "C06-R3")
R.mutant("r4-reader-uses-initial-for-escaped", COMP,
         sub("                self._escape_identifier(self.final_quote),\n", "                self._escape_identifier(self.initial_quote),\n"), "C06-R4")
R.mutant("r4-regex-excludes-initial", COMP,
         sub('r"(?:%(initial)s((?:%(escaped)s|[^%(final)s])+)%(final)s"', 'r"(?:%(initial)s((?:%(escaped)s|[^%(initial)s])+)%(final)s"'), "C06-R4")
R.mutant("r4-unformat-skips-unescape", COMP,
         sub("            self._unescape_identifier(i)\n            for i in", "            i\n            for i in"), "C06-R4")
# benign
R.mutant("benign-added-reserved-word", "dialects/sqlite/base.py", sub('        "select",\n', '        "select",\n        "zzz_future_keyword",\n'), None)
R.mutant("benign-rename-local", COMP,
         sub("        lc_value = value.lower()\n        return (\n            lc_value in self.reserved_words\n            or value[0] in self.illegal_initial_characters\n            or not self.legal_characters.match(str(value))\n            or (lc_value != value)\n",
             "        low = value.lower()\n        return (\n            value[0] in self.illegal_initial_characters\n            or low in self.reserved_words\n            or (low != value)\n            or not self.legal_characters.match(str(value))\n"), None)
R.mutant("benign-escape-split-statements", "dialects/mssql/base.py",
         sub('        return value.replace("]", "]]")\n', '        doubled = "]" * 2\n        value = value.replace("]", doubled)\n        return value\n'), None)
R.mutant("r5-mssql-cache-before-quote-flag", "dialects/mssql/base.py",
         sub("    if isinstance(schema, quoted_name) and schema.quote:\n        return None, schema\n\n    if schema in _memoized_schema:\n        return _memoized_schema[schema]\n",
             "    if schema in _memoized_schema:\n        return _memoized_schema[schema]\n\n    if isinstance(schema, quoted_name) and schema.quote:\n        return None, schema\n"), "C06-R5")
R.mutant("r5-quote-cache-before-force", COMP,
         sub('        force = getattr(ident, "quote", None)\n\n        if force is None:\n            if ident in self._strings:\n                return self._strings[ident]\n',
             '        force = getattr(ident, "quote", None)\n\n        if ident in self._strings:\n            return self._strings[ident]\n        if force is None:\n            if ident in self._strings:\n                return self._strings[ident]\n'), "C06-R5")
R.mutant("r6-normalize-illegal-chars-only", "engine/default.py",
         sub("        elif name_upper == name and not (\n            self.identifier_preparer._requires_quotes\n        )(name_lower):",
             "        elif name_upper == name and not (\n            self.identifier_preparer._requires_quotes_illegal_chars\n        )(name_lower):"), "C06-R6")
R.mutant("r6-denormalize-no-predicate", "engine/default.py",
         sub("        elif name_lower == name and not (\n            self.identifier_preparer._requires_quotes\n        )(name_lower):\n            name = name_upper",
             "        elif name_lower == name:\n            name = name_upper"), "C06-R6")
R.mutant("benign-normalize-local-alias", "engine/default.py",
         sub("        elif name_upper == name and not (\n            self.identifier_preparer._requires_quotes\n        )(name_lower):",
             "        elif name_upper == name and not self.identifier_preparer._requires_quotes(\n            name_lower\n        ):"), None)
