"""C06 -- Identifier quoting round-trips (escape/unescape inverse, reserved-word cover, reader/writer)."""

from __future__ import annotations

import ast
import re

from ..astutil import (
    call_name, calls_in, dotted, guard_atoms, lexical_guards, name_stores, returns_of, unparse, walk_local,
)
from ..evalx import has_unknown
from ..index import ClassInfo, FuncInfo
from ..oracles import load as load_oracle
from ..report import Registry, chain, sub
from ._helpers_rules_a import Mini, Unsupported, self_attr, str_constants, strings_over
from ._helpers_rob_d1 import Mini2, ModelSelf, ModelStr, resolve_alias, single_assignments

R = Registry(
    "C06",
    title="Identifier quoting round-trips every representable name",
    decides=(
        "for every IdentifierPreparer class, _unescape_identifier inverts _escape_identifier (bounded model "
        "over quote / percent alphabets, for each possible _double_percents setting); SQLite's reserved_words "
        "cover every SQLite keyword that the sqlite3 library rejects as a bare identifier; quote_identifier "
        "wraps the escaped value between the quote characters, _requires_quotes keeps its four tests, quote() "
        "honours them, format_* helpers emit names only through the quoting functions (listed exceptions), "
        "compilers do not hand-quote identifiers; the unformat regex is built from the writer's triple and "
        "decodes what the writer produces; the attributes the memoised quote() decision is computed from are "
        "written after construction only together with a reset of the memo or on a preparer built in the same "
        "function; regular expressions of the dialect modules that read quoted identifiers back from SQL text "
        "(SQLite reflection) tie the closing delimiter to the opening one and accept the doubled quote."
    ),
    not_decided="execution of DDL/DML with such names and reflection; keyword cover for PostgreSQL/MySQL/MSSQL/Oracle "
                "(no offline oracle).",
)

COMP = "sql/compiler.py"
PREP = f"{COMP}::IdentifierPreparer"


def _preparer_classes(ctx):
    base = ctx.index.cls(PREP)
    out = [base] + sorted(ctx.index.subclasses(base), key=lambda c: c.key)
    # mixins that are combined with IdentifierPreparer in a concrete class are reached through the MRO
    return base, out


# ------------------------------------------------------------------------------------------ R1
def _fixed_double_percents(ctx, cls: ClassInfo):
    """None if the class can run with either setting, else the constant it forces."""
    ix = ctx.index
    for c in ix.mro(cls):
        for f in c.all_defs.get("_double_percents", []) if hasattr(c, "all_defs") else []:
            if any(d == "property" for d in f.decorators):
                rets = returns_of(f.node)
                if len(rets) == 1 and isinstance(rets[0].value, ast.Constant) and isinstance(rets[0].value.value, bool):
                    return rets[0].value.value
                ctx.error(f"{f.key}: _double_percents property is not a constant")
        init = c.methods.get("__init__")
        if init is not None:
            for n in walk_local(init.node):
                if isinstance(n, ast.Assign) and any(self_attr(t) == "_double_percents" for t in n.targets):
                    if isinstance(n.value, ast.Constant) and isinstance(n.value.value, bool):
                        return n.value.value
                    return None  # computed from the paramstyle: both values possible
    return None


def _run_method(ctx, cls: ClassInfo, fn: FuncInfo, arg: str, attrs: dict, what: str):
    """Model run of `cls().<fn>(arg)`: `self.<attr>` from `attrs`, extracted `self.<helper>()` / `super()` calls
    are followed through the MRO of `cls`."""
    selfobj = ModelSelf(ctx.index, cls, attrs=dict(attrs),
                        on_follow=lambda h, a, k: ctx.functions_analysed.add(h.key))
    val = Mini2(what=what).run_top(fn, [selfobj, arg], {}, selfobj)
    if not isinstance(val, str):
        raise Unsupported(f"{what}: did not return a string for {arg!r}")
    return val


@R.rule("C06-R1", floor=5, template="T-SIBLING (inverse pair, bounded model)",
        desc="per IdentifierPreparer class (methods resolved through the MRO): "
             "_unescape_identifier(_escape_identifier(s)) == s for all s over {quote chars, %, letter} up to "
             "length 3, for each _double_percents value the class can have")
def r1(ctx):
    ix = ctx.index
    base, classes = _preparer_classes(ctx)
    init = base.methods.get("__init__")
    ctx.require(init is not None, "IdentifierPreparer.__init__ vanished")
    # escape_to_quote as a function of escape_quote (read from the constructor)
    e2q = [n for n in walk_local(init.node) if isinstance(n, ast.Assign) and any(self_attr(t) == "escape_to_quote" for t in n.targets)]
    ctx.require(len(e2q) == 1, "IdentifierPreparer.__init__ does not set escape_to_quote exactly once")

    def escape_to_quote(q):
        def hook(node, env, mini):
            return q if self_attr(node) == "escape_quote" else NotImplemented
        return Mini(attr_hook=hook, what="escape_to_quote").ev(e2q[0].value, {})

    groups = {}
    for cls in classes:
        esc = ix.resolve_method(cls, "_escape_identifier")
        une = ix.resolve_method(cls, "_unescape_identifier")
        ctx.require(esc is not None and une is not None, f"{cls.key}: escape/unescape pair not resolvable")
        dp = _fixed_double_percents(ctx, cls)
        groups.setdefault((esc.key, une.key, dp), []).append(cls)
        ctx.functions_analysed.update((esc.key, une.key))
    for (ek, uk, dp), members in sorted(groups.items(), key=lambda kv: str(kv[0])):
        esc, une = ix.func(ek), ix.func(uk)
        key = f"{uk}:inverse-of:{esc.qualname}" + ("" if dp is None else f":double_percents={dp}")
        witness = None
        n = 0
        for q in ('"', "`"):
            attrs_base = {"escape_quote": q, "escape_to_quote": escape_to_quote(q)}
            for dpv in ((False, True) if dp is None else (dp,)):
                attrs = dict(attrs_base, _double_percents=dpv)
                alphabet = [q, "]", "%", "a"]
                for s in strings_over(alphabet, 3):
                    n += 1
                    e = _run_method(ctx, members[0], esc, s, attrs, esc.key)
                    u = _run_method(ctx, members[0], une, e, attrs, une.key)
                    if u != s:
                        witness = (f"escape_quote={q!r}, _double_percents={dpv}: {s!r} -> escaped {e!r} -> "
                                   f"unescaped {u!r}")
                        break
                if witness:
                    break
            if witness:
                break
        names = ", ".join(c.qualname for c in members)
        ctx.check(witness is None, key,
                  f"{une.qualname} does not invert {esc.qualname} ({witness}); affects {names}",
                  f"{n} round trips; classes: {names}", une.loc, [witness] if witness else None)


# ------------------------------------------------------------------------------------------ R2
@R.rule("C06-R2", floor=63, template="T-TABLE (superset of oracle)",
        desc="SQLiteIdentifierPreparer.reserved_words contains every SQLite keyword that the sqlite3 library "
             "rejects (or re-interprets) as a bare identifier (oracle sqlite_keywords.json)")
def r2(ctx):
    o = load_oracle("sqlite_keywords.json")
    cls = ctx.index.cls("dialects/sqlite/base.py::SQLiteIdentifierPreparer")
    v = ctx.ev.class_value(cls, "reserved_words")
    ctx.require(isinstance(v, (set, frozenset)) and not has_unknown(v) and all(isinstance(x, str) for x in v),
                "SQLiteIdentifierPreparer.reserved_words is not a literal set of strings")
    ctx.require(all(x == x.lower() for x in v), "reserved_words contains a non-lower-case entry (lookup is by lower())")
    ctx.note(f"oracle: sqlite {o['sqlite_version']}, {len(o['not_usable_bare'])} unusable bare keywords; "
             f"table has {len(v)} words")
    for kw in o["not_usable_bare"]:
        ctxs = [c for c, ws in o.get("failing_contexts", {}).items() if kw in ws]
        ctx.check(kw in v, f"{cls.key}.reserved_words:{kw}",
                  f"SQLite keyword `{kw}` is not in reserved_words: a column/table of that name is emitted unquoted "
                  f"and rejected or misread by SQLite {o['sqlite_version']} (contexts: {', '.join(ctxs)})",
                  "", cls.loc, nontrivial=False)


# ------------------------------------------------------------------------------------------ R3
def _flatten_add(e):
    if isinstance(e, ast.BinOp) and isinstance(e.op, ast.Add):
        return _flatten_add(e.left) + _flatten_add(e.right)
    return [e]


QUOTERS = {"quote", "quote_schema", "quote_identifier", "truncate_and_render_index_name",
           "truncate_and_render_constraint_name", "_truncate_and_render_maxlen_name"}

# returns of a raw (unquoted) name that are part of the documented contract
RAW_OK = {
    (f"{PREP}.format_column", "getattr(column, 'is_literal', False)", True):
        "literal_column() text is SQL supplied by the user and must not be quoted",
    (f"{PREP}._truncate_and_render_maxlen_name", "_alembic_quote", False):
        "alembic asks for the raw truncated name and quotes it itself",
    (f"{PREP}.format_collation", "self.quote_case_sensitive_collations", False):
        "dialect flag: collation names are rendered bare where the backend rejects quoted collations (MSSQL)",
}


def _raw_ok(fn, node) -> bool:
    atoms = guard_atoms(lexical_guards(fn.module.parents(), node, stop=fn.node))
    return any((fn.key, a, pol) in RAW_OK for a, pol in atoms)


_INDEX = [None]  # set by r3 (helper following in _sanitized)


def _sanitized(e, fn: FuncInfo, depth=0, _active=None) -> bool:
    _active = _active if _active is not None else set()
    if depth > 12:
        return False
    if e is None or (isinstance(e, ast.Constant) and (e.value is None or isinstance(e.value, str))):
        return True
    if isinstance(e, ast.Call):
        f = e.func
        if isinstance(f, ast.Attribute):
            recv = f.value
            is_self = isinstance(recv, ast.Name) and recv.id == "self"
            is_super = isinstance(recv, ast.Call) and isinstance(recv.func, ast.Name) and recv.func.id == "super"
            if (is_self or is_super) and (f.attr in QUOTERS or f.attr.startswith("format_")):
                return True
            if is_self and fn.cls is not None and _INDEX[0] is not None and depth < 6:
                # an extracted private helper: quoted material iff every return of the helper is (its own
                # parameters are raw names, so a pass-through helper is not accepted)
                h = _INDEX[0].resolve_method(fn.cls, f.attr)
                if h is not None and h.key != fn.key and h.key not in _active:
                    hrets = returns_of(h.node)
                    keys = {k for k in _active if "::" in k} | {h.key, fn.key}  # callee locals start fresh
                    if hrets and all(_sanitized(r.value, h, depth + 1, set(keys)) for r in hrets):
                        return True
            if f.attr == "join" and isinstance(recv, ast.Constant) and len(e.args) == 1:
                a = e.args[0]
                if isinstance(a, (ast.GeneratorExp, ast.ListComp)):
                    return _sanitized(a.elt, fn, depth + 1, _active)
                return _sanitized(a, fn, depth + 1, _active)
        return False
    if isinstance(e, ast.BinOp) and isinstance(e.op, ast.Add):
        return _sanitized(e.left, fn, depth + 1, _active) and _sanitized(e.right, fn, depth + 1, _active)
    if isinstance(e, ast.BinOp) and isinstance(e.op, ast.Mod) and isinstance(e.left, ast.Constant):
        args = e.right.elts if isinstance(e.right, ast.Tuple) else [e.right]
        return all(_sanitized(a, fn, depth + 1, _active) for a in args)
    if isinstance(e, ast.JoinedStr):
        return all(_sanitized(p.value, fn, depth + 1, _active) for p in e.values if isinstance(p, ast.FormattedValue))
    if isinstance(e, (ast.Tuple, ast.List)):
        return all(_sanitized(x, fn, depth + 1, _active) for x in e.elts)
    if isinstance(e, ast.IfExp):
        return _sanitized(e.body, fn, depth + 1, _active) and _sanitized(e.orelse, fn, depth + 1, _active)
    if isinstance(e, ast.Name):
        if e.id in _active:
            return True  # `x = quoted + "." + x`: inductive on the other definitions of x
        binds = [(v, st) for n, v, st in name_stores(fn.node) if n == e.id]
        if not binds or e.id in fn.params:
            return False
        _active = _active | {e.id}
        return all((v is not None and _sanitized(v, fn, depth + 1, _active)) or _raw_ok(fn, st) for v, st in binds)
    return False


def _inline_quote_idiom(fn: FuncInfo, name: str) -> bool:
    """`if self._requires_quotes(x): x = self.quote_identifier(x)` -- the body of quote() inlined."""
    pm = fn.module.parents()
    for n, v, st in name_stores(fn.node):
        if n == name and isinstance(v, ast.Call) and dotted(v.func) == "self.quote_identifier" \
                and v.args and isinstance(v.args[0], ast.Name) and v.args[0].id == name:
            atoms = guard_atoms(lexical_guards(pm, st, stop=fn.node))
            if (f"self._requires_quotes({name})", True) in atoms:
                return True
    return False


# ---- model runs (rob-D1): the three small predicates/wrappers are *executed* over model values, so that early
# returns, boolean locals, if-chains vs `or`, f-strings and extracted helpers do not matter
_IQ, _FQ = "\x02", "\x03"
_MODEL_RESERVED = frozenset({"select", "order"})
_MODEL_ILLEGAL_INITIAL = frozenset({"1", "7", "$"})
_MODEL_LEGAL = re.compile(r"^[a-z0-9_$]+$", re.I)
# one model name per disjunct for which ONLY that disjunct holds, and names for which none holds
_REQ_PROBES = (("reserved", "select", "lower-cased name in reserved_words"),
               ("initial", "7up", "first character illegal"),
               ("legal", "a b", "not legal_characters.match(name)"),
               ("case", "miXed", "name is not all lower case"))
_REQ_NONE = ("plain", "a_1$")


def _follow_note(ctx):
    return lambda h, a, k: ctx.functions_analysed.add(h.key)


def _model_quote_identifier(ctx, cls: ClassInfo, f: FuncInfo):
    """-> (holds, rendering) : quote_identifier(v) == initial_quote + _escape_identifier(v) + final_quote."""
    probe = "na" + _FQ + "me"
    selfobj = ModelSelf(ctx.index, cls, attrs={"initial_quote": _IQ, "final_quote": _FQ},
                        methods={"_escape_identifier": lambda v: "E<" + v + ">"}, on_follow=_follow_note(ctx))
    val = Mini2(what=f.key).run_top(f, [selfobj, probe], {}, selfobj)
    shown = val.replace(_IQ, "<initial_quote>").replace(_FQ, "<final_quote>") if isinstance(val, str) else repr(val)
    return val == _IQ + "E<" + probe + ">" + _FQ, shown


def _model_requires_quotes(ctx, cls: ClassInfo, f: FuncInfo):
    """-> set of aspects whose probe name makes _requires_quotes() true (all four expected)."""
    found = set()
    attrs = {"reserved_words": _MODEL_RESERVED, "illegal_initial_characters": _MODEL_ILLEGAL_INITIAL,
             "legal_characters": _MODEL_LEGAL}

    def run(name):
        selfobj = ModelSelf(ctx.index, cls, attrs=dict(attrs), on_follow=_follow_note(ctx))
        return bool(Mini2(what=f.key).run_top(f, [selfobj, name], {}, selfobj))

    for aspect, name, _why in _REQ_PROBES:
        if run(name):
            found.add(aspect)
    for name in _REQ_NONE:
        if run(name):
            raise Unsupported(f"{f.key}: the model name {name!r} requires quotes: model values do not fit")
    return found


def _model_quote(ctx, cls: ClassInfo, f: FuncInfo):
    """-> (quoted when required, quoted when forced) for quote()."""
    def run(ident, req, selfobj=None):
        selfobj = selfobj or ModelSelf(
            ctx.index, cls, attrs={"_strings": {}},
            methods={"_requires_quotes": lambda v: req, "quote_identifier": lambda v: "Q<" + v + ">"},
            on_follow=_follow_note(ctx))
        return Mini2(what=f.key).run_top(f, [selfobj, ident], {}, selfobj), selfobj

    flagged_none = ModelStr("name")
    flagged_none.quote = None
    forced = ModelStr("name")
    forced.quote = True
    first, so = run("name", True)
    again, _ = run("name", True, so)  # second call: served from the memo
    req = first == "Q<name>" and again == "Q<name>" and run(flagged_none, True)[0] == "Q<name>"
    force = run(forced, False)[0] == "Q<name>"
    return req, force


@R.rule("C06-R3", floor=54, template="T-FLOW",
        desc="quote_identifier = initial_quote + _escape_identifier(value) + final_quote; _requires_quotes keeps "
             "its four disjuncts; quote() quotes when required or forced; format_* helpers return only quoted "
             "material (exceptions listed); compiler classes contain no hand-quoted identifier templates")
def r3(ctx):
    ix = ctx.index
    _INDEX[0] = ix
    base, classes = _preparer_classes(ctx)
    # (a) quote_identifier, every definition in the hierarchy
    for cls in classes:
        f = cls.methods.get("quote_identifier")
        if f is None:
            continue
        ctx.functions_analysed.add(f.key)
        try:
            holds, shown = _model_quote_identifier(ctx, cls, f)
            ctx.check(holds, f.key, f"quote_identifier renders `{shown}` for the model name, not "
                                    f"initial_quote + _escape_identifier({f.params[1]}) + final_quote",
                      "initial + escape(value) + final", f.loc)
            continue
        except Unsupported as e:
            ctx.note(f"{f.key}: model run not possible ({e}); structural matcher used")
        rets = returns_of(f.node)
        ctx.require(len(rets) == 1, f"{f.key}: expected one return")
        parts = _flatten_add(rets[0].value)
        v = f.params[1]
        ok = (len(parts) == 3 and self_attr(parts[0]) == "initial_quote" and self_attr(parts[2]) == "final_quote"
              and isinstance(parts[1], ast.Call) and dotted(parts[1].func) == "self._escape_identifier"
              and len(parts[1].args) == 1 and isinstance(parts[1].args[0], ast.Name) and parts[1].args[0].id == v)
        ctx.check(ok, f.key, f"quote_identifier returns `{unparse(rets[0].value)}`, not "
                             f"initial_quote + _escape_identifier({v}) + final_quote",
                  "initial + escape(value) + final", f.loc)
    # (b) _requires_quotes, every definition
    for cls in classes:
        f = cls.methods.get("_requires_quotes")
        if f is None:
            continue
        ctx.functions_analysed.add(f.key)
        try:
            found = _model_requires_quotes(ctx, cls, f)
            for aspect, _name, why in _REQ_PROBES:
                ctx.check(aspect in found, f"{f.key}:{aspect}",
                          f"_requires_quotes no longer tests: {why} (such names would be emitted bare)", why, f.loc)
            continue
        except Unsupported as e:
            ctx.note(f"{f.key}: model run not possible ({e}); structural matcher used")
        v = f.params[1]
        lowered = {n for n, val, st in name_stores(f.node)
                   if isinstance(val, ast.Call) and isinstance(val.func, ast.Attribute) and val.func.attr == "lower"
                   and isinstance(val.func.value, ast.Name) and val.func.value.id == v}
        rets = returns_of(f.node)
        ctx.require(len(rets) == 1, f"{f.key}: expected one return")
        top = rets[0].value
        disj = top.values if isinstance(top, ast.BoolOp) and isinstance(top.op, ast.Or) else [top]
        found = set()
        for d in disj:
            if isinstance(d, ast.Compare) and len(d.ops) == 1:
                l, op, r_ = d.left, d.ops[0], d.comparators[0]
                if isinstance(op, ast.In) and self_attr(r_) == "reserved_words" and isinstance(l, ast.Name) and l.id in lowered:
                    found.add("reserved")
                if isinstance(op, ast.In) and self_attr(r_) == "illegal_initial_characters" and isinstance(l, ast.Subscript) \
                        and isinstance(l.value, ast.Name) and l.value.id == v and unparse(l.slice) == "0":
                    found.add("initial")
                if isinstance(op, ast.NotEq) and {unparse(l), unparse(r_)} & lowered and v in (unparse(l), unparse(r_)):
                    found.add("case")
            if isinstance(d, ast.UnaryOp) and isinstance(d.op, ast.Not) and isinstance(d.operand, ast.Call) \
                    and dotted(d.operand.func) == "self.legal_characters.match" \
                    and any(isinstance(x, ast.Name) and x.id == v for x in ast.walk(d.operand)):
                found.add("legal")
        for aspect, why in (("reserved", "lower-cased name in reserved_words"), ("initial", "first character illegal"),
                            ("legal", "not legal_characters.match(name)"), ("case", "name is not all lower case")):
            ctx.check(aspect in found, f"{f.key}:{aspect}",
                      f"_requires_quotes no longer tests: {why} (such names would be emitted bare)", why, f.loc)
    # (c) quote()
    for cls in classes:
        f = cls.methods.get("quote")
        if f is None:
            continue
        ctx.functions_analysed.add(f.key)
        try:
            req, forced = _model_quote(ctx, cls, f)
            ctx.check(req and forced, f.key,
                      "quote() does not call quote_identifier both when _requires_quotes() holds and when quoting "
                      f"is forced (model: required -> {'quoted' if req else 'bare'}, forced -> "
                      f"{'quoted' if forced else 'bare'})",
                      "quote_identifier under _requires_quotes and under force", f.loc)
            continue
        except Unsupported as e:
            ctx.note(f"{f.key}: model run not possible ({e}); structural matcher used")
        pm = f.module.parents()
        ident = f.params[1]
        qcalls = [c for c in calls_in(f.node) if dotted(c.func) == "self.quote_identifier"]
        req, forced = False, False
        force_names = {n for n, val, st in name_stores(f.node)
                       if isinstance(val, ast.Call) and call_name(val) == "getattr" and len(val.args) >= 2
                       and isinstance(val.args[1], ast.Constant) and val.args[1].value == "quote"}
        for c in qcalls:
            atoms = guard_atoms(lexical_guards(pm, c, stop=f.node))
            if (f"self._requires_quotes({ident})", True) in atoms:
                req = True
            if any(a in force_names and pol for a, pol in atoms):
                forced = True
        # the structural matcher is only trusted when it FINDS the two guarded calls: a shape that neither the
        # model nor the matcher understands is an unknown idiom, not a violation
        ctx.require(req and forced, f"{f.key}: neither the model run nor the structural matcher understands quote()")
        ctx.ok(f.key, "quote_identifier under _requires_quotes and under force (structural)")
    # (d) format_* helpers
    for cls in classes:
        for name, f in sorted(cls.methods.items()):
            if not (name.startswith("format_") or name in ("_truncate_and_render_maxlen_name",)):
                continue
            ctx.functions_analysed.add(f.key)
            pm = f.module.parents()
            bad = []
            for r in returns_of(f.node):
                if _sanitized(r.value, f):
                    continue
                if _raw_ok(f, r):
                    continue
                if isinstance(r.value, ast.Name) and _inline_quote_idiom(f, r.value.id):
                    continue
                bad.append(f"line {r.lineno}: `{unparse(r.value)[:70]}`")
            ctx.check(not bad, f.key, "returns a name that did not pass through quote()/quote_identifier()/format_*: "
                      + "; ".join(bad), "all returns quoted", f.loc)
    # (e) who may concatenate quotes: compiler classes never hand-quote an identifier
    handq = re.compile(r"""(["`])%(\(\w+\))?s\1|^\[%(\(\w+\))?s\]$""")
    compiled = ix.cls(f"{COMP}::Compiled")
    tc = ix.cls(f"{COMP}::TypeCompiler")
    for cls in sorted([compiled, tc] + ix.subclasses(compiled) + ix.subclasses(tc), key=lambda c: c.key):
        bad = []
        for name, f in cls.methods.items():
            in_raise = {id(x) for r_ in ast.walk(f.node) if isinstance(r_, ast.Raise) for x in ast.walk(r_)}
            for n in walk_local(f.node, into_nested=True):
                if id(n) in in_raise:
                    continue  # error-message text
                if isinstance(n, ast.Constant) and isinstance(n.value, str) and handq.search(n.value):
                    if name in HAND_QUOTE_OK.get(cls.key, {}):
                        continue
                    bad.append(f"{name}: {n.value!r}")
                if isinstance(n, ast.JoinedStr):
                    vals = n.values
                    for i in range(1, len(vals) - 1):
                        if isinstance(vals[i], ast.FormattedValue) and isinstance(vals[i - 1], ast.Constant) \
                                and isinstance(vals[i + 1], ast.Constant) and str(vals[i - 1].value)[-1:] in ('"', "`") \
                                and str(vals[i + 1].value)[:1] == str(vals[i - 1].value)[-1:]:
                            bad.append(f"{name}: f-string quotes a value by hand")
        ctx.check(not bad, f"{cls.key}:no-hand-quoting",
                  "identifier-like template built by hand instead of preparer.quote(): " + "; ".join(bad),
                  "", cls.loc, nontrivial=False)


HAND_QUOTE_OK = {
    "sql/compiler.py::StrSQLCompiler": {"get_from_hint_text": "generic stringification renders hints as [text]; not an identifier"},
    "dialects/oracle/cx_oracle.py::OracleCompiler_cx_oracle": {
        "bindparam_string": "quotes a bind-parameter name for the driver (:\"name\"), not an SQL identifier (C04 territory)"},
}


# ------------------------------------------------------------------------------------------ R4
@R.rule("C06-R4", floor=6, template="T-TABLE (reader/writer agreement, regex model)",
        desc="_r_identifiers is built from (initial_quote, final_quote, _escape_identifier(final_quote)) in the "
             "slots (initial, final, escaped) and, instantiated for three quote styles, splits what "
             "quote_identifier writes; unformat_identifiers unescapes every component")
def r4(ctx):
    f = ctx.func(f"{PREP}._r_identifiers")
    uf = ctx.func(f"{PREP}.unformat_identifiers")
    try:
        _r4_model(ctx, f, uf)
        return
    except Unsupported as e:
        ctx.note(f"{f.key}: model run not possible ({e}); structural matcher used")
    _r4_structural(ctx, f)


_STYLES = (("double-quote", ('"', '"')), ("backtick", ("`", "`")), ("brackets", ("[", "]")))


def _r4_model(ctx, f: FuncInfo, uf: FuncInfo):
    """Model run of the reader: `_r_identifiers` is evaluated (re.escape / re.compile are the stdlib's), first over
    marker values (which of the writer's three strings reach the regex), then for three quote styles; the compiled
    regex is handed to a model run of `unformat_identifiers`, which must read back what the writer produces."""
    base = ctx.index.cls(PREP)
    follow = _follow_note(ctx)

    def preparer(ini, fin, methods=None, extra=None):
        attrs = {"initial_quote": ini, "final_quote": fin, "escape_quote": fin, "escape_to_quote": fin * 2,
                 "_double_percents": False}
        attrs.update(extra or {})
        return ModelSelf(ctx.index, base, attrs=attrs, methods=methods or {}, on_follow=follow)

    def regex(selfobj):
        rx = Mini2(what=f.key).run_top(f, [selfobj], {}, selfobj)
        if not isinstance(rx, re.Pattern):
            raise Unsupported(f"{f.key}: does not evaluate to a compiled regular expression in the model")
        return rx

    # (1) provenance of the three slots, with marker strings
    mi, mf = "\x02", "\x03"
    esc_of = lambda v: "\x04" + v + "\x05"  # noqa: E731
    pat = regex(preparer(mi, mf, methods={"_escape_identifier": esc_of})).pattern
    e_escaped = re.escape(esc_of(mf))
    rest = pat.replace(e_escaped, "")
    for slot, present, src in (("initial", re.escape(mi) in rest, "self.initial_quote"),
                               ("final", re.escape(mf) in rest, "self.final_quote"),
                               ("escaped", e_escaped in pat, "self._escape_identifier(self.final_quote)")):
        ctx.check(present, f"{f.key}:slot:{slot}",
                  f"the regex is not built from re.escape({src}), which the writer uses for the {slot} part", src, f.loc)
    # (2) reader/writer agreement per quote style
    for label, (ini, fin) in _STYLES:
        esc = fin + fin
        try:
            rx = regex(preparer(ini, fin))
        except Unsupported as e:
            if "not a regular expression" in str(e):
                ctx.error(f"_r_identifiers template does not compile for {label}: {e}")
            raise
        reader = preparer(ini, fin, extra={"_r_identifiers": rx})
        witness = None
        n = 0
        names = [s for s in strings_over([fin, ini, ".", "a", " "], 2) if s]
        for a in names:
            for b in [None] + names[:12]:
                comps = [a] if b is None else [a, b]
                text = ".".join(ini + c.replace(fin, esc) + fin for c in comps)
                got = Mini2(what=uf.key).run_top(uf, [reader, text], {}, reader)
                got = list(got) if isinstance(got, (list, tuple)) else got
                n += 1
                if got != comps:
                    witness = f"{label}: components {comps} written as {text!r} are read back as {got}"
                    break
            if witness:
                break
        ctx.check(witness is None, f"{f.key}:model:{label}", witness or "",
                  f"{n} dotted names round-trip through unformat_identifiers", f.loc, [witness] if witness else None)


def _r4_structural(ctx, f: FuncInfo):
    # slot -> local name -> tuple position -> source expression
    unpack = [n for n in walk_local(f.node) if isinstance(n, ast.Assign) and isinstance(n.targets[0], ast.Tuple)]
    ctx.require(len(unpack) == 1, "_r_identifiers: expected one tuple-unpacking assignment")
    targets = [t.id for t in unpack[0].targets[0].elts if isinstance(t, ast.Name)]
    gen = unpack[0].value
    ctx.require(isinstance(gen, ast.GeneratorExp) and isinstance(gen.generators[0].iter, ast.Tuple)
                and isinstance(gen.elt, ast.Call) and dotted(gen.elt.func) == "re.escape",
                "_r_identifiers: sources are not `re.escape(s) for s in (...)`")
    sources = [unparse(e) for e in gen.generators[0].iter.elts]
    ctx.require(len(sources) == len(targets) == 3, "_r_identifiers: expected three sources")
    tmpl = None
    slots = {}
    for n in walk_local(f.node):
        if isinstance(n, ast.BinOp) and isinstance(n.op, ast.Mod) and isinstance(n.left, ast.Constant) and isinstance(n.right, ast.Dict):
            tmpl = n.left.value
            for k, v in zip(n.right.keys, n.right.values):
                ctx.require(isinstance(k, ast.Constant) and isinstance(v, ast.Name) and v.id in targets,
                            "_r_identifiers: template dict not understood")
                slots[k.value] = sources[targets.index(v.id)]
    ctx.require(tmpl is not None, "_r_identifiers: no regex template")
    want = {"initial": "self.initial_quote", "final": "self.final_quote",
            "escaped": "self._escape_identifier(self.final_quote)"}
    for slot, src in want.items():
        ctx.check(slots.get(slot) == src, f"{f.key}:slot:{slot}",
                  f"regex slot %({slot})s is filled from `{slots.get(slot)}`, the writer uses `{src}`", src, f.loc)
    # model: instantiate the template for three quote styles and decode what the writer produces
    uf = ctx.func(f"{PREP}.unformat_identifiers")
    une_applied = any(dotted(c.func) == "self._unescape_identifier" for c in calls_in(uf.node)) \
        and any(dotted(c.func) in ("r.findall",) or (isinstance(c.func, ast.Attribute) and c.func.attr == "findall")
                for c in calls_in(uf.node))
    for label, (ini, fin) in (("double-quote", ('"', '"')), ("backtick", ("`", "`")), ("brackets", ("[", "]"))):
        esc = fin + fin
        try:
            rx = re.compile(tmpl % {"initial": re.escape(ini), "final": re.escape(fin), "escaped": re.escape(esc)})
        except Exception as e:  # the template is no longer a regex we can instantiate
            ctx.error(f"_r_identifiers template does not compile for {label}: {e}")
        witness = None
        n = 0
        names = [s for s in strings_over([fin, ini, ".", "a", " "], 2) if s]
        for a in names:
            for b in [None] + names[:12]:
                comps = [a] if b is None else [a, b]
                text = ".".join(ini + c.replace(fin, esc) + fin for c in comps)
                got = [(x or y).replace(esc, fin) for x, y in rx.findall(text)]
                n += 1
                if got != comps:
                    witness = f"{label}: components {comps} written as {text!r} are read back as {got}"
                    break
            if witness:
                break
        ctx.check(witness is None and une_applied, f"{f.key}:model:{label}",
                  witness or "unformat_identifiers does not apply _unescape_identifier to regex matches",
                  f"{n} dotted names round-trip", f.loc, [witness] if witness else None)


# ------------------------------------------------------------------------------------------ R5 / R6
def _quote_flag_reads(fn: FuncInfo):
    """{param: set(local names that hold its .quote flag) , ...} plus direct `p.quote` reads."""
    out = {}
    params = set(fn.params)
    for n in walk_local(fn.node):
        if isinstance(n, ast.Attribute) and n.attr == "quote" and isinstance(n.value, ast.Name) and n.value.id in params:
            out.setdefault(n.value.id, set())
        if isinstance(n, ast.Call) and dotted(n.func) == "getattr" and len(n.args) >= 2 \
                and isinstance(n.args[0], ast.Name) and n.args[0].id in params \
                and isinstance(n.args[1], ast.Constant) and n.args[1].value == "quote":
            out.setdefault(n.args[0].id, set())
    for nm, v, _ in name_stores(fn.node):
        if v is None:
            continue
        for n in ast.walk(v):
            if isinstance(n, ast.Call) and dotted(n.func) == "getattr" and len(n.args) >= 2 \
                    and isinstance(n.args[0], ast.Name) and n.args[0].id in out \
                    and isinstance(n.args[1], ast.Constant) and n.args[1].value == "quote":
                out[n.args[0].id].add(nm)
    return out


def _cache_name(fn: FuncInfo, cache: str, singles) -> str:
    """the container behind a local alias (`memo = self._strings`) -- keeps instance keys stable."""
    head, _, rest = cache.partition(".")
    seen = set()
    while head in singles and head not in seen and dotted(singles[head]):
        seen.add(head)
        cache = dotted(singles[head]) + (("." + rest) if rest else "")
        head, _, rest = cache.partition(".")
    return cache


def _cache_reads(fn: FuncInfo, param: str):
    """AST nodes that look `param` up in a container: `param in C`, `C[param]` (load), `C.get(param)`."""
    out = []
    for n in walk_local(fn.node):
        if isinstance(n, ast.Compare) and len(n.ops) == 1 and isinstance(n.ops[0], (ast.In, ast.NotIn)) \
                and isinstance(n.left, ast.Name) and n.left.id == param and dotted(n.comparators[0]):
            out.append((n, dotted(n.comparators[0])))
        elif isinstance(n, ast.Subscript) and isinstance(n.ctx, ast.Load) and isinstance(n.slice, ast.Name) \
                and n.slice.id == param and dotted(n.value):
            out.append((n, dotted(n.value)))
        elif isinstance(n, ast.Call) and isinstance(n.func, ast.Attribute) and n.func.attr == "get" and n.args \
                and isinstance(n.args[0], ast.Name) and n.args[0].id == param and dotted(n.func.value):
            out.append((n, dotted(n.func.value)))
    return out


def _helper_cache_reads(ix, fn: FuncInfo, param: str, depth=0, seen=None):
    """cache reads keyed by `param` inside private helpers that `fn` hands `param` to (`self.<h>(param)` resolved
    through the MRO, or a module level `h(param)`): [(call node in fn, cache name)] -- the call site stands for
    the read, so that the flag test must dominate the call."""
    out = []
    seen = seen if seen is not None else {fn.key}
    for c in calls_in(fn.node):
        h = None
        if isinstance(c.func, ast.Attribute) and dotted(c.func.value) == "self" and fn.cls is not None:
            h = ix.resolve_method(fn.cls, c.func.attr)
            hparams = [p for p in (h.params if h else []) if p != "self"]
        elif isinstance(c.func, ast.Name):
            t = ix.resolve(fn.module, c.func.id)
            h = t if isinstance(t, FuncInfo) and t.cls is None else None
            hparams = list(h.params) if h else []
        if h is None or h.key in seen:
            continue
        hp = None
        for i, a in enumerate(c.args):
            if isinstance(a, ast.Name) and a.id == param and i < len(hparams):
                hp = hparams[i]
        for k in c.keywords:
            if k.arg and isinstance(k.value, ast.Name) and k.value.id == param and k.arg in hparams:
                hp = k.arg
        if hp is None or hp in _quote_flag_reads(h):
            continue  # a helper that tests the flag itself is a candidate of its own
        hsingles = single_assignments(h.node)
        inner = [(c, _cache_name(h, cache, hsingles)) for _n, cache in _cache_reads(h, hp)]
        if depth < 1:
            inner += [(c, cache) for _n, cache in _helper_cache_reads(ix, h, hp, depth + 1, seen | {h.key})]
        out += inner
    return out


def _guard_atoms_nodes(test, pol):
    """[(atom node, polarity)] of a dominating branch outcome: `a and b` taken, `a or b` not taken and `not x`
    are split; everything else is one atom."""
    if isinstance(test, ast.UnaryOp) and isinstance(test.op, ast.Not):
        return _guard_atoms_nodes(test.operand, not pol)
    if isinstance(test, ast.BoolOp) and ((isinstance(test.op, ast.And) and pol) or (isinstance(test.op, ast.Or) and not pol)):
        out = []
        for v in test.values:
            out += _guard_atoms_nodes(v, pol)
        return out
    return [(test, pol)]


@R.rule("C06-R5", floor=2, template="T-PATH (cache key completeness)",
        desc="a quoting decision that depends on quoted_name.quote is never served from a cache keyed by the bare "
             "name (quoted_name hashes/compares equal to str): in every preparer method / dialect helper that "
             "reads <name>.quote and memoises on <name>, the quote-flag test dominates each cache read")
def r5(ctx):
    ix = ctx.index
    base, classes = _preparer_classes(ctx)
    cands = []
    for cls in classes:
        cands += list(cls.methods.values())
    for m in ix.all_modules():
        if m.relpath.startswith("dialects/") and m.relpath.endswith("/base.py"):
            cands += [f for f in m.functions.values() if f.cls is None]
    for fn in sorted(cands, key=lambda f: f.key):
        flags = _quote_flag_reads(fn)
        for param, holders in sorted(flags.items()):
            reads = _cache_reads(fn, param) + _helper_cache_reads(ix, fn, param)
            if not reads:
                continue
            ctx.functions_analysed.add(fn.key)
            g = ctx.cfg(fn)
            verdicts = {}
            pm = fn.module.parents()
            # boolean snapshots of the flag test (`unflagged = force is None`) are resolved; the flag holders
            # themselves (`force = getattr(ident, "quote", None)`) stay names
            singles = {k: v for k, v in single_assignments(fn.node).items() if k not in holders and k != param}
            for node, cache in reads:
                key = f"{fn.key}:{_cache_name(fn, cache, singles)}[{param}]"
                bad = verdicts.get(key)
                nodes = g.nodes_containing(node)
                ctx.require(nodes, f"{key}: cache read not found in the CFG")
                for nid in nodes:
                    ok = False
                    # CFG branch outcomes + the and/or/ternary operands that lexically dominate the read
                    guards = list(g.edge_guards(nid)) + list(lexical_guards(pm, node, stop=fn.node))
                    atoms = []
                    for test, pol in guards:
                        atoms += _guard_atoms_nodes(resolve_alias(test, singles, fn.params), pol)
                    for test, pol in atoms:
                        mentions = False
                        for a in ast.walk(test):
                            if isinstance(a, ast.Attribute) and a.attr == "quote" and isinstance(a.value, ast.Name) and a.value.id == param:
                                mentions = True
                            if isinstance(a, ast.Name) and a.id in holders:
                                mentions = True
                        if not mentions:
                            continue
                        is_none_test = isinstance(test, ast.Compare) and len(test.ops) == 1 \
                            and isinstance(test.ops[0], (ast.Is, ast.IsNot)) \
                            and isinstance(test.comparators[0], ast.Constant) and test.comparators[0].value is None
                        if is_none_test and isinstance(test.ops[0], ast.IsNot):
                            pol = not pol  # `x is not None` not taken == `x is None` taken
                        if (is_none_test and pol) or (not is_none_test and not pol):
                            ok = True
                    if not ok:
                        bad = g.nodes[nid].describe()
                verdicts[key] = bad
            for key, bad in sorted(verdicts.items()):
                cache = key.rsplit(":", 1)[1].split("[")[0]
                if bad:
                    ctx.violation(key, f"`{cache}` is read with the bare `{param}` as key on a path where `{param}.quote` "
                                       "has not been ruled out: a quoted_name(.., quote=True/False) equal to a cached plain "
                                       "string gets the cached plain-string answer (history dependent quoting)", fn.loc, [bad])
                else:
                    ctx.ok(key, "cache read only after the quote flag was found unset")


@R.rule("C06-R6", floor=3, template="T-SIBLING (predicate agreement)",
        desc="Dialect.normalize_name / denormalize_name fold case exactly for names that quote() would leave "
             "unquoted: they consult the same predicate (`_requires_quotes`) that IdentifierPreparer.quote uses")
def r6(ctx):
    ix = ctx.index
    q = ctx.func(f"{PREP}.quote")
    # the predicate quote() decides with: read in quote() itself or in a private helper it calls on self
    preds = set()
    todo, seen = [(q, 0)], {q.key}
    while todo:
        g, depth = todo.pop()
        singles = single_assignments(g.node)
        for n in walk_local(g.node):
            if isinstance(n, ast.Attribute) and n.attr.startswith("_requires_quotes") \
                    and dotted(resolve_alias(n.value, singles, g.params)) == "self":
                preds.add(n.attr)
        for c in calls_in(g.node):
            if isinstance(c.func, ast.Attribute) and dotted(c.func.value) == "self" and depth < 2 \
                    and not c.func.attr.startswith("_requires_quotes") and c.func.attr not in QUOTERS:
                h = ix.resolve_method(q.cls, c.func.attr)
                if h is not None and h.key not in seen:
                    seen.add(h.key)
                    todo.append((h, depth + 1))
    ctx.require(len(preds) == 1, f"IdentifierPreparer.quote: expected one _requires_quotes* predicate, found {sorted(preds)}")
    pred = next(iter(preds))
    ctx.ok(q.key + ":predicate", f"quote() decides with self.{pred}()")
    dd = ix.cls("engine/default.py::DefaultDialect")
    for cls in [dd] + sorted(ix.subclasses(dd), key=lambda c: c.key):
        for nm in ("normalize_name", "denormalize_name"):
            f = cls.methods.get(nm)
            if f is None:
                continue
            ctx.functions_analysed.add(f.key)
            # predicate reads `<...identifier_preparer>._requires_quotes*` in the method and in the private helpers
            # it calls on self (two levels); local aliases (`prep = self.identifier_preparer`,
            # `needs = prep._requires_quotes`) are resolved first
            used = []  # (attribute name, resolved receiver text)
            delegates = False
            todo, seen = [(f, 0)], {f.key}
            while todo:
                g, depth = todo.pop()
                singles = single_assignments(g.node)
                for n in walk_local(g.node):
                    if isinstance(n, ast.Attribute) and n.attr.startswith("_requires_quotes"):
                        used.append((n.attr, dotted(resolve_alias(n.value, singles, g.params)) or unparse(n.value)))
                for c in calls_in(g.node):
                    if not isinstance(c.func, ast.Attribute):
                        continue
                    if c.func.attr == nm and not (g is f and dotted(c.func.value) == "self"):
                        delegates = True
                    if dotted(c.func.value) == "self" and depth < 2:
                        h = ix.resolve_method(cls, c.func.attr)
                        if h is not None and h.key not in seen and h.name not in ("normalize_name", "denormalize_name"):
                            seen.add(h.key)
                            ctx.functions_analysed.add(h.key)
                            todo.append((h, depth + 1))
            if not used:
                # an override that does not fold by quoting rules at all (delegation) is outside this relation
                if delegates:
                    ctx.ok(f.key, "delegates", nontrivial=False)
                    continue
                ctx.violation(f.key, f"{nm} folds case without consulting the preparer's {pred}()", f.loc)
                continue
            wrong = [f"{recv}.{attr}" for attr, recv in used if attr != pred or not recv.endswith("identifier_preparer")]
            ctx.check(not wrong, f.key,
                      f"{nm} decides case folding with `{wrong}`, but quote() decides with `{pred}`: a name that is "
                      "always rendered quoted (reserved word, illegal initial character) is case-folded as if it were "
                      "rendered bare, so the normalised name denotes a different object",
                      f"identifier_preparer.{pred}(lower-cased name)", f.loc)


# ------------------------------------------------------------------------------------------ R7
def _self_closure(ix, cls: ClassInfo, start: FuncInfo, depth=3):
    """`start` and the methods it reaches through `self.<m>(...)` calls, resolved through the MRO of `cls`."""
    out, todo, seen = [], [(start, 0)], {start.key}
    while todo:
        f, d = todo.pop()
        out.append(f)
        if d >= depth:
            continue
        for c in calls_in(f.node):
            if isinstance(c.func, ast.Attribute) and dotted(c.func.value) == "self":
                h = ix.resolve_method(cls, c.func.attr)
                if h is not None and h.key not in seen:
                    seen.add(h.key)
                    todo.append((h, d + 1))
    return out


def _memo_and_inputs(ctx, classes):
    """(memo attributes of quote(): `self.<M>[name] = ...`, the data attributes of the preparer that the memoised
    decision is computed from) -- over every class of the hierarchy, overrides included."""
    ix = ctx.index
    memos, inputs = set(), set()
    for cls in classes:
        q = ix.resolve_method(cls, "quote")
        if q is None:
            continue
        fns = _self_closure(ix, cls, q)
        for f in fns:
            ctx.functions_analysed.add(f.key)
            singles = single_assignments(f.node)

            def container(e, singles=singles, f=f):
                # `self._strings`, or a local alias of it (`memo = self._strings`)
                return self_attr(resolve_alias(e, singles, f.params)) if isinstance(e, (ast.Name, ast.Attribute)) else None
            for n in walk_local(f.node):
                if isinstance(n, ast.Subscript) and isinstance(n.ctx, ast.Store) and container(n.value):
                    memos.add(container(n.value))
                elif isinstance(n, ast.Call) and isinstance(n.func, ast.Attribute) and n.args \
                        and n.func.attr in ("setdefault", "__setitem__", "update") and container(n.func.value):
                    memos.add(container(n.func.value))
        for f in fns:
            called = {id(c.func) for c in calls_in(f.node)}
            for n in walk_local(f.node):
                a = self_attr(n) if isinstance(n, ast.Attribute) and isinstance(n.ctx, ast.Load) else None
                if a and a not in memos and not (id(n) in called and ix.resolve_method(cls, a) is not None):
                    inputs.add(a)
    return memos, inputs - memos


def _fresh_preparer_expr(ctx, fn: FuncInfo, e, prep_classes, depth=0) -> bool:
    """Does the expression construct a new preparer: `<PreparerClass>(...)` or `<x>.preparer(...)` where the
    class level `preparer` of the dialect hierarchy names a preparer class?"""
    if not isinstance(e, ast.Call):
        return False
    d = dotted(e.func) or ""
    if not d or "()" in d:
        return False
    r = ctx.index.resolve(fn.module, d)
    if isinstance(r, ClassInfo) and r in prep_classes:
        return True
    if isinstance(e.func, ast.Attribute):
        dd = ctx.index.cls("engine/default.py::DefaultDialect")
        owner, vals = ctx.index.class_attr_nodes(dd, e.func.attr)
        if owner is not None and vals:
            t = ctx.index.resolve(owner.module, dotted(vals[-1]) or "")
            if isinstance(t, ClassInfo) and t in prep_classes:
                return True
        if isinstance(r, tuple) and r and r[0] == "classvalue":
            return True if e.func.attr == "preparer" else False
    return False


def _receiver_fresh_at(ctx, fn: FuncInfo, recv, node_stmt, prep_classes) -> bool:
    """Is the object `recv` denotes at `node_stmt` a preparer constructed in this very function, on every path:
    a local all of whose reaching values are constructions, or an attribute path whose store of a construction
    dominates the use."""
    from ._helpers_rob_c2 import Scope
    sc = Scope(ctx, fn)
    g = sc.g
    use_nodes = g.nodes_for(node_stmt)
    if not use_nodes:
        return False

    def fresh_value(v, at):
        if isinstance(v, ast.Name):
            orig = sc.origins(v, at)
            return bool(orig) and all(kind == "expr" and _fresh_preparer_expr(ctx, fn, x, prep_classes)
                                      for kind, x, _n in orig)
        return _fresh_preparer_expr(ctx, fn, v, prep_classes)

    if isinstance(recv, ast.Name):
        return all(fresh_value(recv, u) for u in use_nodes)
    path = dotted(recv)
    if not path or "()" in path:
        return False
    stores = []
    for n in g.nodes:
        st = n.stmt
        if n.kind != "stmt" or not isinstance(st, (ast.Assign, ast.AnnAssign)):
            continue
        tgs = st.targets if isinstance(st, ast.Assign) else [st.target]
        if any(dotted(t) == path for t in tgs) and st.value is not None:
            stores.append((n.id, st.value))
    good = [nid for nid, v in stores if fresh_value(v, nid)]
    bad = [nid for nid, v in stores if nid not in good]
    if not good:
        return False
    for u in use_nodes:
        if g.always_preceded(u, good) is not None:
            return False
        # no other store of the attribute between the construction and the use
        if bad and g.witness(good, [u], avoid=(), edge_ok=None) is not None and \
                any(g.witness(good, [b]) is not None and g.witness([b], [u]) is not None for b in bad):
            return False
    return True


@R.rule("C06-R7", floor=2, template="T-OWN/T-PATH (memo invalidation)",
        desc="IdentifierPreparer.quote() memoises its decision per name; the attributes that decision is computed "
             "from (reserved_words, legal/illegal characters, quote characters ...) are written after construction "
             "only by a method that also resets the memo, or on a preparer that was constructed in the same "
             "function just before (so that nothing can be cached yet)")
def r7(ctx):
    ix = ctx.index
    base, classes = _preparer_classes(ctx)
    memos, inputs = _memo_and_inputs(ctx, classes)
    ctx.require(memos and len(inputs) >= 3, f"quote(): memo {sorted(memos)} / inputs {sorted(inputs)} not understood")
    ctx.ok(f"{PREP}.quote:memo-inputs", f"memo {sorted(memos)}; decision computed from {sorted(inputs)}")
    prep_set = set(classes)

    def resets_memo(st) -> bool:
        if isinstance(st, ast.Assign) and any(self_attr(t) in memos for t in st.targets):
            return True
        if isinstance(st, ast.Expr) and isinstance(st.value, ast.Call) and isinstance(st.value.func, ast.Attribute) \
                and st.value.func.attr == "clear" and self_attr(st.value.func.value) in memos:
            return True
        return False

    # writers: methods of preparer classes (other than the constructor) that store to an input attribute
    writers = []
    for cls in classes:
        for f in cls.methods.values():
            if f.name in ("__init__", "__new__"):
                continue
            stores = [st for n_ in [0] for st in ast.walk(f.node)
                      if isinstance(st, (ast.Assign, ast.AugAssign, ast.AnnAssign))
                      and any(self_attr(t) in inputs for t in (st.targets if isinstance(st, ast.Assign) else [st.target]))]
            stores += [st for st in ast.walk(f.node) if isinstance(st, ast.Expr) and isinstance(st.value, ast.Call)
                       and isinstance(st.value.func, ast.Attribute)
                       and st.value.func.attr in ("add", "update", "discard", "remove", "clear", "difference_update")
                       and self_attr(st.value.func.value) in inputs]
            if stores:
                writers.append((cls, f, stores))
    n_sites = 0
    for cls, f, stores in sorted(writers, key=lambda w: w[1].key):
        ctx.functions_analysed.add(f.key)
        g = ctx.cfg(f)
        store_nodes = [nid for st in stores for nid in g.nodes_for(st)]
        reset_nodes = [n.id for n in g.nodes if n.stmt is not None and n.kind == "stmt" and resets_memo(n.stmt)]
        attrs = sorted({self_attr(t) for st in stores if isinstance(st, (ast.Assign, ast.AugAssign, ast.AnnAssign))
                        for t in (st.targets if isinstance(st, ast.Assign) else [st.target]) if self_attr(t) in inputs}
                       | {self_attr(st.value.func.value) for st in stores if isinstance(st, ast.Expr)})
        if reset_nodes and store_nodes and g.must_pass(store_nodes, [g.exit], reset_nodes, edge_ok=None) is None:
            n_sites += 1
            ctx.ok(f"{f.key}:memo-reset", f"writes {attrs} and resets {sorted(memos)} before returning")
            continue
        # otherwise every caller must hand it a preparer that cannot have cached anything yet
        sites = []
        for fn in ix.all_functions():
            if fn.module.relpath.startswith("testing") or fn.type_only or fn.is_overload:
                continue
            for c in calls_in(fn.node):
                if not (isinstance(c.func, ast.Attribute) and c.func.attr == f.name):
                    continue
                recv = c.func.value
                if isinstance(recv, ast.Name) and recv.id in ("self", "cls") or (
                        isinstance(recv, ast.Call) and dotted(recv.func) == "super"):
                    tgt = ix.resolve_method(fn.cls, f.name) if fn.cls is not None else None
                    if tgt is None or tgt.cls not in prep_set:
                        continue  # a method of the same name on another kind of object (e.g. the dialect)
                sites.append((fn, c))
        if not sites:
            ctx.note(f"{f.key}: writes {attrs} without resetting {sorted(memos)}; no call site in the package")
            continue
        pm_cache = {}
        for fn, c in sites:
            n_sites += 1
            ctx.functions_analysed.add(fn.key)
            pm = pm_cache.setdefault(fn.module.relpath, fn.module.parents())
            from ..astutil import enclosing_stmt
            st = enclosing_stmt(pm, c)
            recv = c.func.value
            if isinstance(recv, ast.Name) and recv.id in ("self", "cls") and fn.cls in prep_set and fn.name in ("__init__",):
                ctx.ok(f"{fn.key}:{f.name}()", "called by the constructor")
                continue
            fresh = st is not None and _receiver_fresh_at(ctx, fn, recv, st, prep_set)
            ctx.check(
                fresh, f"{fn.key}:{f.name}()",
                f"`{unparse(c)[:70]}` changes {attrs} of a preparer that may already have quoted names: "
                f"{f.qualname} does not reset {sorted(memos)} (the per-name memo of IdentifierPreparer.quote), and "
                f"`{unparse(recv)[:50]}` is not a preparer constructed in {fn.qualname} just before the call -- every "
                f"name rendered before the switch keeps its cached (bare or quoted) form, e.g. a word that is "
                f"reserved only under the new list stays unquoted",
                f"`{unparse(recv)[:50]}` is constructed in this function before {f.name}() is applied",
                f"{fn.module.path}:{c.lineno}")
    ctx.require(n_sites >= 1, "no post-construction writer of a quoting input found (floor)")


# ------------------------------------------------------------------------------------------ R8
try:  # python >= 3.11
    import re._parser as _sre_parse
    import re._constants as _sre_c
except ImportError:  # pragma: no cover
    import sre_parse as _sre_parse
    import sre_constants as _sre_c

_OPENERS = {'"': '"', "'": "'", "`": "`", "[": "]"}
_CLOSERS = set(_OPENERS.values())
_RE_CALL_FLAGS_POS = {"compile": 1, "match": 2, "search": 2, "fullmatch": 2, "findall": 2, "finditer": 2, "split": 3,
                      "sub": 4, "subn": 4}
_RE_FLAG_BITS = {"I": re.I, "IGNORECASE": re.I, "X": re.X, "VERBOSE": re.X, "S": re.S, "DOTALL": re.S, "M": re.M,
                 "MULTILINE": re.M, "A": re.A, "ASCII": re.A, "U": re.U, "UNICODE": re.U}


def _const_text(e, lookup, depth=0):
    """Constant string value of an expression (literals, `+`, names bound once to such), else None."""
    if depth > 4:
        return None
    if isinstance(e, ast.Constant) and isinstance(e.value, str):
        return e.value
    if isinstance(e, ast.BinOp) and isinstance(e.op, ast.Add):
        l, r_ = _const_text(e.left, lookup, depth + 1), _const_text(e.right, lookup, depth + 1)
        return l + r_ if l is not None and r_ is not None else None
    if isinstance(e, ast.Name):
        v = lookup(e.id)
        return _const_text(v, lookup, depth + 1) if v is not None else None
    return None


def _flag_bits(e):
    if e is None:
        return 0
    if isinstance(e, ast.BinOp) and isinstance(e.op, ast.BitOr):
        l, r_ = _flag_bits(e.left), _flag_bits(e.right)
        return None if l is None or r_ is None else l | r_
    d = dotted(e) or ""
    if d.startswith("re.") and d[3:] in _RE_FLAG_BITS:
        return int(_RE_FLAG_BITS[d[3:]])
    if isinstance(e, ast.Constant) and isinstance(e.value, int):
        return e.value
    return None


def _delim(item, closing: bool):
    """A regex item that matches exactly one quote character: -> (set of chars | ('ref', group), optional?,
    capturing group number or None); None if the item is something else."""
    op, av = item
    optional = False
    if op in (_sre_c.MAX_REPEAT, _sre_c.MIN_REPEAT) and av[0] == 0 and av[1] == 1 and len(av[2]) == 1:
        optional = True
        op, av = av[2][0]
    group = None
    if op is _sre_c.SUBPATTERN and len(av[3]) == 1:
        group = av[0]
        op, av = av[3][0]
    universe = _CLOSERS if closing else set(_OPENERS)
    if op is _sre_c.LITERAL and chr(av) in universe:
        return {chr(av)}, optional, group
    if op is _sre_c.IN and av and all(o is _sre_c.LITERAL and chr(a) in universe for o, a in av):
        return {chr(a) for _o, a in av}, optional, group
    if op is _sre_c.GROUPREF and closing:
        return ("ref", av), optional, group
    return None


def _leaf_can_match(item, ch: str) -> bool:
    """Can this single-character matcher match `ch`?  (decided with the stdlib engine on the leaf itself)"""
    op, av = item
    if op is _sre_c.LITERAL:
        return chr(av) == ch
    if op is _sre_c.NOT_LITERAL:
        return chr(av) != ch
    if op is _sre_c.ANY:
        return ch != "\n"
    if op is _sre_c.IN:
        neg = bool(av) and av[0][0] is _sre_c.NEGATE
        hit = False
        for o, a in av:
            if o is _sre_c.LITERAL and chr(a) == ch:
                hit = True
            elif o is _sre_c.RANGE and a[0] <= ord(ch) <= a[1]:
                hit = True
            elif o is _sre_c.CATEGORY:
                cat = str(a)
                word = ch.isalnum() or ch == "_"
                table = {"CATEGORY_WORD": word, "CATEGORY_NOT_WORD": not word, "CATEGORY_DIGIT": ch.isdigit(),
                         "CATEGORY_NOT_DIGIT": not ch.isdigit(), "CATEGORY_SPACE": ch.isspace(),
                         "CATEGORY_NOT_SPACE": not ch.isspace()}
                hit = hit or table.get(cat, True)
        return hit != neg
    if op is _sre_c.CATEGORY:
        return _leaf_can_match((_sre_c.IN, [(_sre_c.CATEGORY, av)]), ch)
    return False


def _body_facts(seq, q: str):
    """(can some single-character matcher of the body match `q`, does the body have an alternative that is exactly
    the doubled quote `q q`)"""
    can, doubled = False, False
    for op, av in seq:
        if op is _sre_c.SUBPATTERN:
            c, d = _body_facts(av[3], q)
        elif op in (_sre_c.MAX_REPEAT, _sre_c.MIN_REPEAT, getattr(_sre_c, "POSSESSIVE_REPEAT", None)):
            c, d = _body_facts(av[2], q)
        elif op is _sre_c.BRANCH:
            c = d = False
            for alt in av[1]:
                items = list(alt)
                if len(items) == 2 and all(o is _sre_c.LITERAL and chr(a) == q for o, a in items):
                    d = True
                    continue
                c2, d2 = _body_facts(alt, q)
                c, d = c or c2, d or d2
        elif op in (_sre_c.ASSERT, _sre_c.ASSERT_NOT, _sre_c.AT, _sre_c.GROUPREF):
            c = d = False
        else:
            c, d = _leaf_can_match((op, av), q), False
        can, doubled = can or c, doubled or d
    return can, doubled


def _quoted_spans(seq, out):
    """Collect (opening delimiter, body items, closing delimiter, anchored at the end?) for every
    `<quote> body <quote>` span of a parsed pattern, at any nesting depth."""
    items = list(seq)
    for i, (op, av) in enumerate(items):
        if op is _sre_c.SUBPATTERN:
            _quoted_spans(av[3], out)
        elif op in (_sre_c.MAX_REPEAT, _sre_c.MIN_REPEAT):
            _quoted_spans(av[2], out)
        elif op is _sre_c.BRANCH:
            for alt in av[1]:
                _quoted_spans(alt, out)
        elif op in (_sre_c.ASSERT, _sre_c.ASSERT_NOT):
            _quoted_spans(av[1], out)
    for i in range(1, len(items) - 1):
        d1, d2 = _delim(items[i - 1], False), _delim(items[i + 1], True)
        if d1 and d2 and items[i][0] in (_sre_c.SUBPATTERN, _sre_c.MAX_REPEAT, _sre_c.MIN_REPEAT) \
                and not _delim(items[i], True):
            anchored = i + 2 < len(items) and items[i + 2][0] is _sre_c.AT and "END" in str(items[i + 2][1])
            out.append((d1, [items[i]], d2, anchored))


def _dialect_quotes(ctx, m):
    """(initial quote, final quote) of the identifier preparer defined in a dialect module; the base default
    where the module's preparer does not choose constants."""
    base = ctx.index.cls(PREP)
    init = base.methods["__init__"]
    from ..astutil import func_defaults
    dflt = func_defaults(init.node)
    iq = dflt.get("initial_quote")
    ini = iq.value if isinstance(iq, ast.Constant) and isinstance(iq.value, str) else '"'
    fin = ini
    for c in m.classes.values():
        if base in ctx.index.mro(c) and "__init__" in c.methods:
            for call in calls_in(c.methods["__init__"].node):
                if (call_name(call) or "").endswith("__init__"):
                    kw = {k.arg: k.value for k in call.keywords if k.arg}
                    a, b = kw.get("initial_quote"), kw.get("final_quote")
                    if isinstance(a, ast.Constant) and isinstance(a.value, str):
                        ini = fin = a.value
                        if isinstance(b, ast.Constant) and isinstance(b.value, str):
                            fin = b.value
                    elif a is not None:
                        return None  # chosen at run time (MySQL ansi quotes)
    return ini, fin


@R.rule("C06-R8", floor=8, template="T-TABLE (reader/writer agreement, regex structure)",
        desc="every regular expression of a dialect's reflection code that reads a quoted identifier back out of SQL text "
             "(`<quote> body <quote>` with the dialect's own quote character among the opening delimiters) agrees "
             "with the preparer that wrote it: the closing delimiter is tied to the opening one (same literal pair "
             "or a back-reference), never an independent set whose members the name may contain; and the body "
             "accepts the doubled closing quote instead of ending at it")
def r8(ctx):
    n_sites = 0
    dd = ctx.index.cls("engine/default.py::DefaultDialect")
    for m in sorted(ctx.index.all_modules(), key=lambda x: x.relpath):
        if not m.relpath.startswith("dialects/") or "/provision" in m.relpath:
            continue
        quotes = _dialect_quotes(ctx, m)
        fns = sorted([f for f in ctx.index.all_functions(m) if not f.type_only and not f.is_overload], key=lambda f: f.key)
        for fn in fns:
            # reflection code only: methods of the dialect class / functions of a reflection module.  (Other quoted
            # syntaxes parsed in dialect packages -- HSTORE / range / array literals -- have their own escapes.)
            if not (m.relpath.endswith("reflection.py") or (fn.cls is not None and dd in ctx.index.mro(fn.cls))):
                continue
            stores = {}
            for nm, v, _st in name_stores(fn.node, into_nested=True):
                stores.setdefault(nm, []).append(v)

            def lookup(name, stores=stores, fn=fn):
                vals = stores.get(name)
                if vals is None and fn.cls is not None:
                    vals = fn.cls.assigns.get(name)
                if vals is None:
                    vals = m.assigns.get(name)
                return vals[0] if vals and len(vals) == 1 else None

            bad_delims, bad_escape, n_here, first_loc = [], [], 0, None
            for c in sorted(calls_in(fn.node, into_nested=True), key=lambda c: (c.lineno, c.col_offset)):
                d = dotted(c.func) or ""
                pat_e = fe = None
                if d.startswith("re.") and d[3:] in _RE_CALL_FLAGS_POS and c.args:
                    pat_e = c.args[0]
                    pos = _RE_CALL_FLAGS_POS[d[3:]]
                    fe = c.args[pos] if len(c.args) > pos else next((kw.value for kw in c.keywords if kw.arg == "flags"), None)
                elif isinstance(c.func, ast.Attribute) and c.func.attr in _RE_CALL_FLAGS_POS and c.func.attr != "compile":
                    # <compiled constant>.finditer(...): a module / class level `re.compile(...)` used here
                    rv = c.func.value
                    comp = lookup(rv.id) if isinstance(rv, ast.Name) and rv.id not in stores else (
                        lookup(rv.attr) if isinstance(rv, ast.Attribute) and dotted(rv.value) in ("self", "cls") else None)
                    if isinstance(comp, ast.Call) and dotted(comp.func) == "re.compile" and comp.args:
                        pat_e = comp.args[0]
                        fe = comp.args[1] if len(comp.args) > 1 else next((kw.value for kw in comp.keywords if kw.arg == "flags"), None)
                if pat_e is None:
                    continue
                text = _const_text(pat_e, lookup)
                if text is None or "%(" in text:
                    continue
                flags = _flag_bits(fe)
                if flags is None:
                    continue
                if not any(q in text for q in _OPENERS):
                    continue
                try:
                    tree = _sre_parse.parse(text, flags)
                except Exception:
                    continue  # not a pattern (e.g. a replacement template resolved by name)
                spans = []
                _quoted_spans(tree, spans)
                for d1, body, d2, anchored in spans:
                    (open_chars, _oopt, ogroup), (close, _copt, _cg) = d1, d2
                    if quotes is None or quotes[0] not in open_chars:
                        continue  # quotes of string literals / of another syntax: not this dialect's identifiers
                    n_here += 1
                    first_loc = first_loc or f"{m.path}:{c.lineno}"
                    shown = " ".join(text.split())[:70]
                    # (a) tied delimiters
                    bad = None
                    if isinstance(close, tuple):
                        if ogroup is None or close[1] != ogroup:
                            bad = "the closing back-reference does not refer to the group that captured the opening quote"
                        elif any(_OPENERS[o] != o for o in open_chars):
                            bad = "a back-reference closes an asymmetric quote with its opening character"
                    else:
                        for o in sorted(open_chars):
                            for cl in sorted(close):
                                if cl != _OPENERS[o] and _body_facts(body, cl)[0]:
                                    bad = (f"a name opened with {o!r} is closed by {cl!r}: opening {sorted(open_chars)} and "
                                           f"closing {sorted(close)} are independent sets and the body can contain {cl!r}, so "
                                           f"{o}na{cl}me{_OPENERS[o]} is read as `na`")
                                    break
                            if bad:
                                break
                            if _OPENERS[o] not in close:
                                bad = f"a name opened with {o!r} can never be closed by {_OPENERS[o]!r}"
                                break
                    if bad:
                        bad_delims.append(f"/{shown}/ (line {c.lineno}): {bad}")
                    # (b) the doubled closing quote is part of the name
                    if anchored:
                        continue  # anchored at both ends: the body spans the whole quoted text
                    fq = quotes[1]
                    can, doubled = _body_facts(body, fq)
                    if not (doubled and not can):
                        bad_escape.append(
                            f"/{shown}/ (line {c.lineno}): the body "
                            + ("matches a lone quote like any other character" if can else "cannot contain the quote at all")
                            + (" and has no alternative for the doubled quote" if not doubled else ""))
            if not n_here:
                continue
            n_sites += n_here
            ctx.functions_analysed.add(fn.key)
            key = f"{fn.key}:quoted-identifier-regex"
            ctx.check(not bad_delims, key + ":delimiters",
                      "a quoted identifier is read with delimiters that are not tied together: " + "; ".join(bad_delims),
                      f"{n_here} quoted-name span(s): closing delimiter tied to the opening one", first_loc)
            fq = quotes[1]
            ctx.check(not bad_escape, key + ":escape",
                      f"the writer (quote_identifier) doubles a {fq!r} inside a name, the reader does not take the doubled "
                      f"quote for an escaped one -- {quotes[0]}a{fq}{fq}b{fq} is read back as `a` (or, where the text after "
                      f"the closing quote forces the match on, as the still escaped `a{fq}{fq}b`): " + "; ".join(bad_escape),
                      f"{n_here} quoted-name span(s): body = (not {fq!r} | {fq!r}{fq!r})*", first_loc)
    ctx.require(n_sites >= 4, f"only {n_sites} quoted-identifier spans found in dialect regular expressions")


# ------------------------------------------------------------------------------------------ self test
R.mutant("r1-mssql-unescape-wrong-char", "dialects/mssql/base.py",
         sub('        return value.replace("]]", "]")\n', '        return value.replace("[[", "[")\n'), "C06-R1")
R.mutant("r1-base-unescape-noop", COMP,
         sub("        value = value.replace(self.escape_to_quote, self.escape_quote)\n        if self._double_percents:\n"
             "            value = value.replace(\"%%\", \"%\")\n",
             "        if self._double_percents:\n            value = value.replace(\"%%\", \"%\")\n"), "C06-R1")
R.mutant("r1-base-unescape-forgets-percent", COMP,
         sub("        if self._double_percents:\n            value = value.replace(\"%%\", \"%\")\n        return value\n",
             "        return value\n"), "C06-R1")
R.mutant("r1-mysqlconnector-escape-triples", "dialects/mysql/mysqlconnector.py",
         sub("            self.escape_to_quote,  # type: ignore[attr-defined]\n        )\n        return value\n",
             "            self.escape_to_quote + self.escape_quote,  # type: ignore[attr-defined]\n        )\n        return value\n"), "C06-R1")
R.mutant("r2-drop-select", "dialects/sqlite/base.py", sub('        "select",\n', ""), "C06-R2")
R.mutant("r2-drop-where", "dialects/sqlite/base.py", sub('        "where",\n', ""), "C06-R2")
R.mutant("r3-quote-identifier-skips-escape", COMP,
         sub("            + self._escape_identifier(value)\n            + self.final_quote\n", "            + value\n            + self.final_quote\n"), "C06-R3")
R.mutant("r3-requires-quotes-drops-reserved", COMP,
         sub("            lc_value in self.reserved_words\n            or value[0] in self.illegal_initial_characters\n            or not self.legal_characters.match(str(value))\n            or (lc_value != value)\n",
             "            value[0] in self.illegal_initial_characters\n            or not self.legal_characters.match(str(value))\n            or (lc_value != value)\n"), "C06-R3")
R.mutant("r3-format-schema-raw", COMP,
         sub('        """Prepare a quoted schema name."""\n\n        return self.quote(name)\n', '        """Prepare a quoted schema name."""\n\n        return name\n'), "C06-R3")
R.mutant("r3-format-table-raw-schema", COMP,
         sub('            result = self.quote_schema(effective_schema) + "." + result\n        return result\n',
             '            result = effective_schema + "." + result\n        return result\n'), "C06-R3")
R.mutant("r3-compiler-hand-quotes", "dialects/sqlite/base.py",
         sub('        return "SELECT %s FROM (SELECT %s) WHERE 1!=1" % (', '        _x = \'"%s"\' % "t"\n        return "SELECT %s FROM (SELECT %s) WHERE 1!=1" % ('), "C06-R3")
R.mutant("r4-reader-uses-initial-for-escaped", COMP,
         sub("                self._escape_identifier(self.final_quote),\n", "                self._escape_identifier(self.initial_quote),\n"), "C06-R4")
R.mutant("r4-regex-excludes-initial", COMP,
         sub('r"(?:%(initial)s((?:%(escaped)s|[^%(final)s])+)%(final)s"', 'r"(?:%(initial)s((?:%(escaped)s|[^%(initial)s])+)%(final)s"'), "C06-R4")
R.mutant("r4-unformat-skips-unescape", COMP,
         sub("            self._unescape_identifier(i)\n            for i in", "            i\n            for i in"), "C06-R4")
# benign
R.mutant("benign-added-reserved-word", "dialects/sqlite/base.py", sub('        "select",\n', '        "select",\n        "zzz_future_keyword",\n'), None)
R.mutant("benign-rename-local", COMP,
         sub("        lc_value = value.lower()\n        return (\n            lc_value in self.reserved_words\n            or value[0] in self.illegal_initial_characters\n            or not self.legal_characters.match(str(value))\n            or (lc_value != value)\n",
             "        low = value.lower()\n        return (\n            value[0] in self.illegal_initial_characters\n            or low in self.reserved_words\n            or (low != value)\n            or not self.legal_characters.match(str(value))\n"), None)
R.mutant("benign-escape-split-statements", "dialects/mssql/base.py",
         sub('        return value.replace("]", "]]")\n', '        doubled = "]" * 2\n        value = value.replace("]", doubled)\n        return value\n'), None)
R.mutant("r5-mssql-cache-before-quote-flag", "dialects/mssql/base.py",
         sub("    if isinstance(schema, quoted_name) and schema.quote:\n        return None, schema\n\n    if schema in _memoized_schema:\n        return _memoized_schema[schema]\n",
             "    if schema in _memoized_schema:\n        return _memoized_schema[schema]\n\n    if isinstance(schema, quoted_name) and schema.quote:\n        return None, schema\n"), "C06-R5")
R.mutant("r5-quote-cache-before-force", COMP,
         sub('        force = getattr(ident, "quote", None)\n\n        if force is None:\n            if ident in self._strings:\n                return self._strings[ident]\n',
             '        force = getattr(ident, "quote", None)\n\n        if ident in self._strings:\n            return self._strings[ident]\n        if force is None:\n            if ident in self._strings:\n                return self._strings[ident]\n'), "C06-R5")
R.mutant("r6-normalize-illegal-chars-only", "engine/default.py",
         sub("        elif name_upper == name and not (\n            self.identifier_preparer._requires_quotes\n        )(name_lower):",
             "        elif name_upper == name and not (\n            self.identifier_preparer._requires_quotes_illegal_chars\n        )(name_lower):"), "C06-R6")
R.mutant("r6-denormalize-no-predicate", "engine/default.py",
         sub("        elif name_lower == name and not (\n            self.identifier_preparer._requires_quotes\n        )(name_lower):\n            name = name_upper",
             "        elif name_lower == name:\n            name = name_upper"), "C06-R6")
R.mutant("benign-normalize-local-alias", "engine/default.py",
         sub("        elif name_upper == name and not (\n            self.identifier_preparer._requires_quotes\n        )(name_lower):",
             "        elif name_upper == name and not self.identifier_preparer._requires_quotes(\n            name_lower\n        ):"), None)
# ---- rob-D1: benign families (stored refactors rfD_1/2/3 and own variants) with breaking twins ---------------
_REQ_OLD = ("        lc_value = value.lower()\n        return (\n            lc_value in self.reserved_words\n"
            "            or value[0] in self.illegal_initial_characters\n"
            "            or not self.legal_characters.match(str(value))\n            or (lc_value != value)\n        )\n")
R.mutant("benign-requires-quotes-early-returns", COMP,
         sub(_REQ_OLD, "        lc_value = value.lower()\n        if lc_value in self.reserved_words:\n            return True\n"
             "        if value[0] in self.illegal_initial_characters:\n            return True\n"
             "        if not self.legal_characters.match(str(value)):\n            return True\n"
             "        return lc_value != value\n"), None)
R.mutant("r3-requires-quotes-early-returns-drop-initial", COMP,
         sub(_REQ_OLD, "        lc_value = value.lower()\n        if lc_value in self.reserved_words:\n            return True\n"
             "        if not self.legal_characters.match(str(value)):\n            return True\n"
             "        return lc_value != value\n"), "C06-R3")
R.mutant("benign-requires-quotes-de-morgan-locals", COMP,
         sub(_REQ_OLD, "        folded = value.lower()\n        is_plain = (\n            folded == value\n"
             "            and folded not in self.reserved_words\n"
             "            and value[0] not in self.illegal_initial_characters\n"
             "            and self.legal_characters.match(str(value)) is not None\n        )\n"
             "        return not is_plain\n"), None)
R.mutant("r3-requires-quotes-de-morgan-wrong-polarity", COMP,
         sub(_REQ_OLD, "        folded = value.lower()\n        is_plain = (\n            folded == value\n"
             "            and folded not in self.reserved_words\n"
             "            and value[0] not in self.illegal_initial_characters\n"
             "            and self.legal_characters.match(str(value)) is None\n        )\n"
             "        return not is_plain\n"), "C06-R3")
_ESC_OLD = ("        value = value.replace(self.escape_quote, self.escape_to_quote)\n        if self._double_percents:\n"
            "            value = value.replace(\"%\", \"%%\")\n        return value\n")
R.mutant("benign-escape-early-return-local", COMP,
         sub(_ESC_OLD, "        escaped = value.replace(self.escape_quote, self.escape_to_quote)\n"
             "        if not self._double_percents:\n            return escaped\n        return escaped.replace(\"%\", \"%%\")\n"), None)
R.mutant("benign-escape-extracted-helper", COMP,
         sub(_ESC_OLD, "        return self._double_percent_signs(\n            value.replace(self.escape_quote, self.escape_to_quote)\n        )\n\n"
             "    def _double_percent_signs(self, text):\n        if self._double_percents:\n            text = text.replace(\"%\", \"%%\")\n"
             "        return text\n"), None)
R.mutant("r1-escape-extracted-helper-triples", COMP,
         sub(_ESC_OLD, "        return self._double_percent_signs(\n            value.replace(self.escape_quote, self.escape_to_quote)\n        )\n\n"
             "    def _double_percent_signs(self, text):\n        if self._double_percents:\n            text = text.replace(\"%\", \"%%%\")\n"
             "        return text\n"), "C06-R1")
_QI_OLD = ("        return (\n            self.initial_quote\n            + self._escape_identifier(value)\n"
           "            + self.final_quote\n        )\n")
R.mutant("benign-quote-identifier-fstring", COMP,
         sub(_QI_OLD, "        body = self._escape_identifier(value)\n        return f\"{self.initial_quote}{body}{self.final_quote}\"\n"), None)
R.mutant("r3-quote-identifier-fstring-swapped-quotes", COMP,
         sub(_QI_OLD, "        body = self._escape_identifier(value)\n        return f\"{self.final_quote}{body}{self.initial_quote}\"\n"), "C06-R3")
_QUOTE_OLD = ("        if force is None:\n            if ident in self._strings:\n                return self._strings[ident]\n"
              "            else:\n                if self._requires_quotes(ident):\n"
              "                    self._strings[ident] = self.quote_identifier(ident)\n                else:\n"
              "                    self._strings[ident] = ident\n                return self._strings[ident]\n"
              "        elif force:\n            return self.quote_identifier(ident)\n        else:\n            return ident\n")
R.mutant("benign-quote-flag-snapshot-early-returns", COMP,
         sub(_QUOTE_OLD, "        unflagged = force is None\n        if not unflagged:\n"
             "            return self.quote_identifier(ident) if force else ident\n"
             "        memo = self._strings\n        if ident not in memo:\n"
             "            needs = self._requires_quotes(ident)\n"
             "            memo[ident] = self.quote_identifier(ident) if needs else ident\n        return memo[ident]\n"), None)
R.mutant("r5-quote-flag-snapshot-cache-first", COMP,
         sub(_QUOTE_OLD, "        unflagged = force is None\n        memo = self._strings\n        if ident in memo:\n            return memo[ident]\n"
             "        if not unflagged:\n            return self.quote_identifier(ident) if force else ident\n"
             "        needs = self._requires_quotes(ident)\n"
             "        memo[ident] = self.quote_identifier(ident) if needs else ident\n        return memo[ident]\n"), "C06-R5")
R.mutant("benign-quote-memo-helper", COMP,
         sub(_QUOTE_OLD, "        if force is None:\n            return self._quote_memoized(ident)\n"
             "        elif force:\n            return self.quote_identifier(ident)\n        else:\n            return ident\n\n"
             "    def _quote_memoized(self, name):\n        try:\n            return self._strings[name]\n        except KeyError:\n            pass\n"
             "        if self._requires_quotes(name):\n            result = self.quote_identifier(name)\n        else:\n            result = name\n"
             "        self._strings[name] = result\n        return result\n"), None)
R.mutant("r5-quote-memo-helper-before-flag", COMP,
         sub(_QUOTE_OLD, "        memoized = self._quote_memoized(ident)\n        if force is None:\n            return memoized\n"
             "        elif force:\n            return self.quote_identifier(ident)\n        else:\n            return ident\n\n"
             "    def _quote_memoized(self, name):\n        if name in self._strings:\n            return self._strings[name]\n"
             "        if self._requires_quotes(name):\n            result = self.quote_identifier(name)\n        else:\n            result = name\n"
             "        self._strings[name] = result\n        return result\n"), "C06-R5")
R.mutant("r3-quote-ignores-force", COMP,
         sub("        elif force:\n            return self.quote_identifier(ident)\n        else:\n            return ident\n",
             "        else:\n            return ident\n"), "C06-R3")
_RID_OLD = ("        initial, final, escaped_final = (\n            re.escape(s)\n            for s in (\n"
            "                self.initial_quote,\n                self.final_quote,\n"
            "                self._escape_identifier(self.final_quote),\n            )\n        )\n")
R.mutant("benign-r-identifiers-explicit-escapes", COMP,
         sub(_RID_OLD, "        escaped_final_quote = self._escape_identifier(self.final_quote)\n"
             "        initial = re.escape(self.initial_quote)\n        final = re.escape(self.final_quote)\n"
             "        escaped_final = re.escape(escaped_final_quote)\n"), None)
R.mutant("r4-r-identifiers-explicit-escapes-wrong-source", COMP,
         sub(_RID_OLD, "        escaped_final_quote = self._escape_identifier(self.initial_quote)\n"
             "        initial = re.escape(self.initial_quote)\n        final = re.escape(self.final_quote)\n"
             "        escaped_final = re.escape(escaped_final_quote)\n"), "C06-R4")
_UNF_OLD = ("        r = self._r_identifiers\n        return [\n            self._unescape_identifier(i)\n"
            "            for i in [a or b for a, b in r.findall(identifiers)]\n        ]\n")
R.mutant("benign-unformat-loop", COMP,
         sub(_UNF_OLD, "        matcher = self._r_identifiers\n        components = []\n"
             "        for quoted_token, plain_token in matcher.findall(identifiers):\n"
             "            token = quoted_token or plain_token\n"
             "            components.append(self._unescape_identifier(token))\n        return components\n"), None)
R.mutant("r4-unformat-loop-prefers-plain-group-only", COMP,
         sub(_UNF_OLD, "        matcher = self._r_identifiers\n        components = []\n"
             "        for quoted_token, plain_token in matcher.findall(identifiers):\n"
             "            token = quoted_token or plain_token\n"
             "            components.append(token)\n        return components\n"), "C06-R4")
R.mutant("benign-format-schema-private-helper", COMP,
         sub('        """Prepare a quoted schema name."""\n\n        return self.quote(name)\n',
             '        """Prepare a quoted schema name."""\n\n        return self._render_name(name)\n\n'
             '    def _render_name(self, raw):\n        rendered = self.quote(raw)\n        return rendered\n'), None)
R.mutant("r3-format-schema-private-helper-passthrough", COMP,
         sub('        """Prepare a quoted schema name."""\n\n        return self.quote(name)\n',
             '        """Prepare a quoted schema name."""\n\n        return self._render_name(name)\n\n'
             '    def _render_name(self, raw):\n        rendered = raw\n        return rendered\n'), "C06-R3")
_NORM_OLD = ("        elif name_upper == name and not (\n            self.identifier_preparer._requires_quotes\n        )(name_lower):")
R.mutant("benign-normalize-preparer-alias", "engine/default.py",
         chain(sub("        name_lower = name.lower()\n        name_upper = name.upper()\n\n        if name_upper == name_lower:\n"
                   "            # name has no upper/lower conversion, e.g. non-european characters.\n            # return unchanged\n"
                   "            return name\n        elif name_upper == name and not (",
                   "        name_lower = name.lower()\n        name_upper = name.upper()\n        preparer = self.identifier_preparer\n"
                   "        needs_quotes = preparer._requires_quotes\n\n        if name_upper == name_lower:\n"
                   "            # name has no upper/lower conversion, e.g. non-european characters.\n            # return unchanged\n"
                   "            return name\n        elif name_upper == name and not ("),
               sub(_NORM_OLD, "        elif name_upper == name and not needs_quotes(name_lower):")), None)
R.mutant("r6-normalize-preparer-alias-illegal-chars", "engine/default.py",
         chain(sub("        name_lower = name.lower()\n        name_upper = name.upper()\n\n        if name_upper == name_lower:\n"
                   "            # name has no upper/lower conversion, e.g. non-european characters.\n            # return unchanged\n"
                   "            return name\n        elif name_upper == name and not (",
                   "        name_lower = name.lower()\n        name_upper = name.upper()\n        preparer = self.identifier_preparer\n"
                   "        needs_quotes = preparer._requires_quotes_illegal_chars\n\n        if name_upper == name_lower:\n"
                   "            # name has no upper/lower conversion, e.g. non-european characters.\n            # return unchanged\n"
                   "            return name\n        elif name_upper == name and not ("),
               sub(_NORM_OLD, "        elif name_upper == name and not needs_quotes(name_lower):")), "C06-R6")
R.mutant("benign-denormalize-helper", "engine/default.py",
         sub("        elif name_lower == name and not (\n            self.identifier_preparer._requires_quotes\n        )(name_lower):\n            name = name_upper\n        return name\n",
             "        elif name_lower == name and self._rendered_bare(name_lower):\n            name = name_upper\n        return name\n\n"
             "    def _rendered_bare(self, lowered):\n        return not self.identifier_preparer._requires_quotes(lowered)\n"), None)

# ---- str2-a (round 2 seeds) ---------------------------------------------------------------------------------
SHIM = "dialects/mysql/_mariadb_shim.py"
_SHIM_OLD = ("            self.identifier_preparer = self.preparer(self)\n"
             "            self.identifier_preparer._set_mariadb()\n")
_SHIM_WRITER = "    def _set_mariadb(self) -> None:\n        self.reserved_words = RESERVED_WORDS_MARIADB\n"
# seed C06_4: the existing preparer (whose memo may be filled) is switched to the MariaDB word list in place
R.mutant("r7-seed4-mariadb-preparer-switched-in-place", SHIM,
         sub(_SHIM_OLD, "            self.identifier_preparer._set_mariadb()\n"), "C06-R7")
R.mutant("r7-new-preparer-stored-elsewhere", SHIM,
         sub(_SHIM_OLD, "            self._mariadb_preparer = self.preparer(self)\n"
             "            self.identifier_preparer._set_mariadb()\n"), "C06-R7")
R.mutant("r7-preparer-switched-before-it-is-rebuilt", SHIM,
         sub(_SHIM_OLD, "            preparer = self.identifier_preparer\n            preparer._set_mariadb()\n"
             "            self.identifier_preparer = self.preparer(self)\n"), "C06-R7")
R.mutant("benign-mariadb-preparer-built-in-a-local", SHIM,
         sub(_SHIM_OLD, "            new_preparer = self.preparer(self)\n            new_preparer._set_mariadb()\n"
             "            self.identifier_preparer = new_preparer\n"), None)
R.mutant("benign-mariadb-switch-in-place-with-memo-reset", SHIM, chain(
    sub(_SHIM_OLD, "            self.identifier_preparer._set_mariadb()\n"),
    sub(_SHIM_WRITER, _SHIM_WRITER + "        self._strings = {}\n")), None)
R.mutant("benign-mariadb-preparer-built-by-a-helper", SHIM, chain(
    sub(_SHIM_OLD, "            self.identifier_preparer = self._mariadb_preparer()\n"),
    sub("    @property\n    def _mariadb_normalized_version_info(self) -> tuple[int, ...]:\n",
        "    def _mariadb_preparer(self):\n        built = self.preparer(self)\n        built._set_mariadb()\n        return built\n\n"
        "    @property\n    def _mariadb_normalized_version_info(self) -> tuple[int, ...]:\n")), None)
R.mutant("r7-memo-reset-only-on-one-branch", SHIM, chain(
    sub(_SHIM_OLD, "            self.identifier_preparer._set_mariadb()\n"),
    sub(_SHIM_WRITER, _SHIM_WRITER + "        if len(self._strings) > 1000:\n            self._strings = {}\n")), "C06-R7")

SQLITE = "dialects/sqlite/base.py"
_SIG_OLD = "        for match in re.finditer(r'(?:\"(.+?)\")|([a-z0-9_]+)', sig, re.I):\n"
# seed C06_3: any of " ' ` opens and any of them closes the column name
R.mutant("r8-seed3-cols-in-sig-untied-quote-sets", SQLITE,
         sub(_SIG_OLD, "        for match in re.finditer(\n            r\"\"\"(?:[\"'`](.+?)[\"'`])|([a-z0-9_]+)\"\"\", sig, re.I\n        ):\n"), "C06-R8")
R.mutant("r8-fk-referred-table-bracket-or-quote", SQLITE,
         sub("r'REFERENCES\\s+(?:(?:\"(.+?)\")|([a-z0-9_]+))", "r'REFERENCES\\s+(?:(?:[\"\\[](.+?)[\"\\]])|([a-z0-9_]+))"), "C06-R8")
R.mutant("r8-pk-name-closed-by-backreference-to-wrong-group", SQLITE,
         sub("PK_PATTERN = r'CONSTRAINT\\s+(?:\"(.+?)\"|(\\w+))\\s+PRIMARY\\s+KEY'",
             "PK_PATTERN = r'(CONSTRAINT)\\s+(?:([\"`])(.+?)\\1|(\\w+))\\s+PRIMARY\\s+KEY'"), "C06-R8")
R.mutant("benign-cols-in-sig-pattern-hoisted-and-split", SQLITE, chain(
    sub(_SIG_OLD, "        for match in self._COLS_IN_SIG.finditer(sig):\n"),
    sub("    def _find_cols_in_sig(self, sig):\n",
        "    _COLS_IN_SIG = re.compile(r'(?:\"(.+?)\")' + r\"|([a-z0-9_]+)\", re.I)\n\n    def _find_cols_in_sig(self, sig):\n")), None)
R.mutant("benign-cols-in-sig-each-quote-style-tied", SQLITE,
         sub(_SIG_OLD, "        pattern = r'(?:\"(.+?)\")|(?:`(?:[^`]|``)+`)|([a-z0-9_]+)'\n"
             "        for match in re.finditer(pattern, sig, re.I):\n"), None)
