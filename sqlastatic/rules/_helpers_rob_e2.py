"""Helpers of the robustify round for C20 / C21 (rob-E2).

* `explore_paths`  -- run a small string-building function symbolically (PyLite of rob-C1) under EVERY assignment of
                      the conditions it tests on opaque values; -> [(assignment, outcome)].  Independent of how the
                      function spells its decisions (if/else vs conditional expression, inverted tests, local aliases,
                      temporaries, `+=` vs f-string vs join).
* `local_defs` / `expand` / `norm_fn` -- copy propagation of single-assignment locals on a copy of a function.
* `dominating_atoms` -- conjunctive guard atoms (expr, polarity) that hold at a statement: CFG branch outcomes
                      (early returns, inverted if/else, nested ifs) + conditional expressions inside the statement.
"""

from __future__ import annotations

import ast
import copy
from typing import Dict, List, Optional, Sequence, Tuple

from ..astutil import name_stores, parent_map, unparse, walk_local
from ._helpers_rob_c1 import Opaque, PyLite, SStr, Unsupported, single_bindings
from ._helpers_rob_g1 import ast_atoms, expand_expr


# ---------------------------------------------------------------------------------------------- path exploration
class NeedAtom(Exception):
    def __init__(self, atom):
        self.atom = atom


def _norm_atom(label: str) -> Tuple[str, bool]:
    """(canonical atom text, polarity): `x is not None` -> (`x is None`, False), `a not in b` -> (`a in b`, False),
    `a != b` -> (`a == b`, False)."""
    for neg, pos in ((" is not ", " is "), (" not in ", " in "), (" != ", " == ")):
        if neg in label:
            return label.replace(neg, pos, 1), False
    return label, True


class _Forking(PyLite):
    """PyLite whose undecided conditions are answered from `self.assign` (canonical atom -> bool); a condition not yet
    assigned raises NeedAtom so that the driver can fork.  Loops / comprehensions over an opaque sequence run ONE
    symbolic iteration with the target bound to `elem(<sequence>)`."""

    def __init__(self, ctx, module, assign, cls=None, no_follow=(), max_depth=4):
        super().__init__(ctx, module, truth=self._ask, max_depth=max_depth, cls=cls, no_follow=no_follow)
        self.assign = assign

    def _ask(self, label):
        atom, pol = _norm_atom(label)
        if atom not in self.assign:
            raise NeedAtom(atom)
        return self.assign[atom] == pol

    def _elem(self, seq: Opaque, target):
        if isinstance(target, (ast.Tuple, ast.List)):
            return tuple(Opaque(f"elem({seq.label})[{i}]") for i, _ in enumerate(target.elts))
        return Opaque(f"elem({seq.label})")

    def _comp(self, gens, i, env, depth, emit):
        if i < len(gens):
            seq = self.ev(gens[i].iter, env, depth)
            if isinstance(seq, Opaque):
                env2 = dict(env)
                self._store(gens[i].target, self._elem(seq, gens[i].target), env2, depth)
                if all(self._truth(self.ev(c, env2, depth), " (comprehension filter)") for c in gens[i].ifs):
                    self._comp(gens, i + 1, env2, depth, emit)
                return
        super()._comp(gens, i, env, depth, emit)

    def _stmt(self, st, env, depth):
        if isinstance(st, ast.For) and not st.orelse:
            seq = self.ev(st.iter, env, depth)
            if isinstance(seq, Opaque):
                self._store(st.target, self._elem(seq, st.target), env, depth)
                return self._block(st.body, env, depth)
        return super()._stmt(st, env, depth)

    def _call(self, e, env, depth):
        f = e.func
        if isinstance(f, ast.Attribute) and f.attr == "join" and len(e.args) == 1 and not e.keywords:
            recv = self.ev(f.value, env, depth)
            if isinstance(recv, (str, SStr)):
                items = self.ev(e.args[0], env, depth)
                if isinstance(items, Opaque):
                    return Opaque(f"{recv!r}.join({items.label})")
        return super()._call(e, env, depth)


def explore_paths(ctx, finfo, args: Sequence, cls=None, no_follow=(), limit: int = 2048):
    """[(assignment {atom: bool}, ('return', value) | ('raise', name))] for every combination of the opaque
    conditions `finfo` tests, given argument values `args` (Opaque / concrete).  Unsupported propagates."""
    out, work = [], [{}]
    while work:
        assign = work.pop()
        it = _Forking(ctx, finfo.module, assign, cls=cls, no_follow=no_follow)
        try:
            r = it.run(finfo, list(args))
        except NeedAtom as na:
            work.append({**assign, na.atom: True})
            work.append({**assign, na.atom: False})
            if len(work) + len(out) > limit:
                raise Unsupported(f"{finfo.qualname}: too many independent conditions")
            continue
        out.append((assign, r))
    return out


def parts_of(v) -> List[object]:
    """parts (str | Opaque) of a rendered value."""
    if isinstance(v, SStr):
        return list(v.parts)
    if isinstance(v, (str, Opaque)):
        return [v]
    return []


# ---------------------------------------------------------------------------------------------- copy propagation
def _fresh_single_bindings(fnode):
    """single_bindings() of rob-C1 caches its result ON the function node; a deep copy that was edited afterwards
    (helpers inlined) would see the stale table of the original: always recompute."""
    try:
        del fnode._rob_single_bindings
    except AttributeError:
        pass
    return single_bindings(fnode)


def local_defs(fnode) -> Dict[str, ast.expr]:
    """single-assignment locals of fnode (not parameters / loop targets / augmented)."""
    return dict(_fresh_single_bindings(fnode))


def expand(fnode, expr: ast.AST, keep=(), depth: int = 4) -> ast.AST:
    """`expr` with the single-assignment locals of `fnode` replaced by their defining expressions."""
    return expand_expr(expr, local_defs(fnode), keep=keep, depth=depth)


def ternary_atoms(pm, node, stop) -> List[Tuple[ast.expr, bool]]:
    """(test, polarity) of the conditional expressions / and-or operands enclosing `node` below statement `stop`."""
    out = []
    cur, child = pm.get(node), node
    while cur is not None and cur is not stop:
        if isinstance(cur, ast.IfExp):
            if child is cur.body:
                out.append((cur.test, True))
            elif child is cur.orelse:
                out.append((cur.test, False))
        elif isinstance(cur, ast.BoolOp):
            idx = next((i for i, v in enumerate(cur.values) if v is child), 0)
            for v in cur.values[:idx]:
                out.append((v, isinstance(cur.op, ast.And)))
        child, cur = cur, pm.get(cur)
    return out


def expand_bool(test: ast.expr, defs: Dict[str, ast.expr], depth: int = 4) -> ast.expr:
    """a test in which single-assignment locals used AS boolean operands (`too_long = len(x) > n; if too_long:`) are
    replaced by their definitions; operands of comparisons / calls are left alone."""
    if depth <= 0:
        return test
    if isinstance(test, ast.Name) and test.id in defs:
        return expand_bool(defs[test.id], defs, depth - 1)
    if isinstance(test, ast.UnaryOp) and isinstance(test.op, ast.Not):
        return ast.UnaryOp(op=ast.Not(), operand=expand_bool(test.operand, defs, depth))
    if isinstance(test, ast.BoolOp):
        return ast.BoolOp(op=test.op, values=[expand_bool(v, defs, depth) for v in test.values])
    return test


def dominating_atoms(g, stmt, fnode=None) -> List[Tuple[ast.expr, bool]]:
    """conjunctive atoms (expr, polarity) implied by the branch outcomes that dominate `stmt` in CFG `g`; the atoms of
    a test are split (`a and b` taken -> a, b; `a or b` refused -> not a, not b); single-assignment boolean locals
    used as tests are expanded when `fnode` is given."""
    nodes = g.nodes_for(stmt)
    if not nodes:
        return []
    out = []
    defs = local_defs(fnode) if fnode is not None else {}
    for test, pol in g.edge_guards(nodes[0]):
        out.extend(ast_atoms(expand_bool(test, defs) if defs else test, pol))
    return out


# ---------------------------------------------------------------------------------------------- canonical atoms
_FLIP = {ast.Lt: ast.Gt, ast.Gt: ast.Lt, ast.LtE: ast.GtE, ast.GtE: ast.LtE}


def _is_len(e):
    return isinstance(e, ast.Call) and isinstance(e.func, ast.Name) and e.func.id == "len" and len(e.args) == 1 and not e.keywords


def len_guard(e: ast.expr):
    """`len(X) > L` in any spelling -> (unparse(X), L expression, shift, polarity) meaning
    (len(X) > L + shift) == polarity; None for anything else.
    `len(x) <= L` -> (x, L, 0, False); `L < len(x)` -> (x, L, 0, True); `len(x) >= L` -> (x, L, -1, True)."""
    if not (isinstance(e, ast.Compare) and len(e.ops) == 1):
        return None
    l, r, op = e.left, e.comparators[0], type(e.ops[0])
    if op not in _FLIP:
        return None
    if _is_len(r) and not _is_len(l):
        l, r, op = r, l, _FLIP[op]
    if not _is_len(l):
        return None
    x = unparse(l.args[0])
    if op is ast.Gt:
        return (x, r, 0, True)
    if op is ast.LtE:
        return (x, r, 0, False)
    if op is ast.GtE:
        return (x, r, -1, True)
    return (x, r, -1, False)   # len(x) < L  ==  not (len(x) > L - 1)


def canon_atom(e: ast.expr) -> Tuple[str, bool]:
    """(key, polarity) of an atomic test: negative spellings (`is not`, `!=`, `not in`, `<=`, `<`) are folded into
    the polarity; length comparisons are oriented as `len(x) > L`."""
    lg = len_guard(e)
    if lg is not None:
        x, L, shift, pol = lg
        return f"len({x}) > {unparse(L)}" + (f" {shift:+d}" if shift else ""), pol
    if isinstance(e, ast.Compare) and len(e.ops) == 1:
        op = e.ops[0]
        neg = {ast.IsNot: ast.Is, ast.NotEq: ast.Eq, ast.NotIn: ast.In}
        if type(op) in neg:
            e2 = ast.Compare(left=e.left, ops=[neg[type(op)]()], comparators=e.comparators)
            return unparse(e2), False
    return unparse(e), True


def canon_atoms(atoms) -> List[Tuple[str, bool]]:
    """[(expr, pol)] (from ast_atoms / dominating_atoms) -> [(canonical key, polarity)]."""
    out = []
    for e, pol in atoms:
        k, p = canon_atom(e)
        out.append((k, pol == p))
    return out


def tri(test: ast.expr, facts: Dict[str, bool]) -> Optional[bool]:
    """three-valued truth of `test` given the truth of canonical atoms."""
    if isinstance(test, ast.UnaryOp) and isinstance(test.op, ast.Not):
        v = tri(test.operand, facts)
        return None if v is None else not v
    if isinstance(test, ast.BoolOp):
        vals = [tri(v, facts) for v in test.values]
        if isinstance(test.op, ast.And):
            return False if any(v is False for v in vals) else (True if all(v is True for v in vals) else None)
        return True if any(v is True for v in vals) else (False if all(v is False for v in vals) else None)
    if isinstance(test, ast.Constant):
        return bool(test.value)
    k, p = canon_atom(test)
    if k in facts:
        return facts[k] == p
    return None


def edge_ok_under(g, facts: Dict[str, bool], defs: Optional[Dict[str, ast.expr]] = None):
    """`edge_ok` predicate: non-exceptional edges, minus branch outcomes refuted by `facts`."""
    memo = {}

    def ok(a, b, lab):
        if lab == "exc":
            return False
        n = g.nodes[a]
        if n.kind == "test" and lab in ("true", "false") and hasattr(n.stmt, "test"):
            if a not in memo:
                t = n.stmt.test
                memo[a] = tri(expand_bool(t, defs) if defs else t, facts)
            v = memo[a]
            if v is not None and v != (lab == "true"):
                return False
        return True
    return ok


# ---------------------------------------------------------------------------------------------- normal form of a function
def _pure(e) -> bool:
    """attribute chains on names, names, constants, tuples of those, and such a value +/- an integer constant: no calls,
    no subscripts."""
    if isinstance(e, (ast.Name, ast.Constant)):
        return True
    if isinstance(e, ast.Attribute):
        return _pure(e.value)
    if isinstance(e, ast.Tuple):
        return all(_pure(x) for x in e.elts)
    if isinstance(e, ast.BinOp) and isinstance(e.op, (ast.Add, ast.Sub)):      # `max_len = self.label_length - 6`
        return _pure(e.left) and _pure(e.right) and any(isinstance(x, ast.Constant) and isinstance(x.value, int) for x in (e.left, e.right))
    return False


class _SubstLoads(ast.NodeTransformer):
    def __init__(self, mapping):
        self.mapping = mapping

    def visit_Name(self, node):
        if isinstance(node.ctx, ast.Load) and node.id in self.mapping:
            new = copy.deepcopy(self.mapping[node.id])
            for x in ast.walk(new):
                ast.copy_location(x, node)
            return new
        return node


def norm_fn(ctx, f, pred=_pure):
    """A copy of FuncInfo `f` in which every read of a single-assignment local whose definition is *pure*
    (`names = self.truncated_names`, `key = (ident_class, name)`) is replaced by that definition (aliases of aliases
    resolved).  The defining statements stay.  Fresh AST: use `ctx.cfg(f2.node)` and `parent_map(f2.node)`."""
    cache = ctx.__dict__.setdefault("_rob_e2_nf", {})
    k = (id(f.node), id(pred))
    if k in cache:
        return cache[k]
    node = copy.deepcopy(f.node)
    defs = {n: v for n, v in _fresh_single_bindings(node).items() if pred(v)}
    # a local rebound inside a nested scope / comprehension is left alone
    for n in ast.walk(node):
        if n is not node and isinstance(n, (ast.FunctionDef, ast.AsyncFunctionDef, ast.Lambda)):
            for x in ast.walk(n):
                if isinstance(x, ast.Name) and isinstance(x.ctx, ast.Store):
                    defs.pop(x.id, None)
    for _ in range(3):
        defs = {k_: _SubstLoads({a: b for a, b in defs.items() if a != k_}).visit(copy.deepcopy(v)) for k_, v in defs.items()}
    if defs:
        node.body = [_SubstLoads(defs).visit(st) for st in node.body]
        ast.fix_missing_locations(node)
    f2 = copy.copy(f)
    f2.node = node
    cache[k] = f2
    return f2


def _stringish(e) -> bool:
    return isinstance(e, (ast.Name, ast.JoinedStr)) or (isinstance(e, ast.BinOp) and isinstance(e.op, ast.Add)) \
        or (isinstance(e, ast.Subscript) and isinstance(e.slice, ast.Slice))


def expand_strings(fnode, expr: ast.AST, keep=(), depth: int = 4) -> ast.AST:
    """`expr` with single-assignment locals that stand for string-building expressions (concatenation, slice,
    f-string, plain alias) replaced by those; locals bound to calls / attributes stay symbolic."""
    defs = {n: v for n, v in _fresh_single_bindings(fnode).items() if _stringish(v) and n not in set(keep)}
    return expand_expr(expr, defs, depth=depth)


def value_arms(value: ast.expr, atoms=()):
    """[(expression, extra atoms)]: a conditional expression is split into its arms."""
    if isinstance(value, ast.IfExp):
        return value_arms(value.body, list(atoms) + ast_atoms(value.test, True)) + \
            value_arms(value.orelse, list(atoms) + ast_atoms(value.test, False))
    return [(value, list(atoms))]


# ---------------------------------------------------------------------------------------------- extract-method inverse
# rob-G1's normal_form() with one correction: in `target = helper(..)` mode the helper's locals are renamed BEFORE the
# final `target = <returned value>` is appended, so a helper local that happens to have the caller's target name
# (`truncname = self._numbered(..)` where the helper also calls its result `truncname`) does not capture the target.
def _inline_call_fixed(ctx, f, call, mode, used, skip, counter, targets=None):
    from . import _helpers_rob_g1 as G
    r = G._inlinable(ctx, f, call, skip, None)
    if r is None:
        return None
    callee, m = r
    hn = callee.node
    body = copy.deepcopy(G._body_wo_doc(hn))
    if not body:
        return None
    all_rets = [n for n in walk_local(ast.Module(body=body, type_ignores=[])) if isinstance(n, ast.Return)]
    last = body[-1]
    tail = None
    if mode == "expr":
        if any(r_ is not last for r_ in all_rets):
            return None
        if isinstance(last, ast.Return):
            body = body[:-1] + ([ast.copy_location(ast.Expr(value=last.value), last)] if last.value is not None else [])
    elif mode == "assign":
        if not (isinstance(last, ast.Return) and last.value is not None) or any(r_ is not last for r_ in all_rets):
            return None
        tail = ast.copy_location(ast.Assign(targets=[], value=last.value), last)
        body = body[:-1] + [tail]
    else:
        if not isinstance(last, (ast.Return, ast.Raise)):
            body.append(ast.copy_location(ast.Return(value=ast.Constant(value=None)), last))
    stored = {n for n, v, st in name_stores(hn)}
    prologue, subst, rename = [], {}, {}
    own = {x.arg for x in hn.args.posonlyargs + hn.args.args + hn.args.kwonlyargs}
    for p, arg in m.items():
        if p not in stored and (G._simple_arg(arg) or sum(1 for n in walk_local(hn) if isinstance(n, ast.Name) and n.id == p) <= 1):
            subst[p] = arg
        else:
            new = p if p not in used else p + "__inl"
            if new != p:
                rename[p] = new
            prologue.append(ast.copy_location(ast.Assign(targets=[ast.Name(id=new, ctx=ast.Store())], value=copy.deepcopy(arg)), call))
    for loc_name in stored - set(m) - own:
        if loc_name in used:
            rename[loc_name] = loc_name + "__inl"
    mod = ast.Module(body=body, type_ignores=[])
    if rename:
        mod = G._Rename(rename).visit(mod)
    if subst:
        mod = G._Subst(subst).visit(mod)
    if tail is not None:
        tail.targets = copy.deepcopy(targets)
    used.update(rename.values())
    used.update(stored)
    ctx.functions_analysed.add(callee.key)
    out = prologue + list(mod.body)
    G._relocate(out, call, counter)
    return out


def _inline_block_fixed(ctx, f, body, used, skip, depth, counter):
    from . import _helpers_rob_g1 as G
    out = []
    for st in body:
        repl = None
        if depth > 0:
            if isinstance(st, ast.Expr) and isinstance(st.value, ast.Call):
                repl = _inline_call_fixed(ctx, f, st.value, "expr", used, skip, counter)
            elif isinstance(st, ast.Assign) and isinstance(st.value, ast.Call):
                repl = _inline_call_fixed(ctx, f, st.value, "assign", used, skip, counter, st.targets)
            elif isinstance(st, ast.Return) and isinstance(st.value, ast.Call):
                repl = _inline_call_fixed(ctx, f, st.value, "return", used, skip, counter)
        if repl is not None:
            out.extend(_inline_block_fixed(ctx, f, repl, used, skip, depth - 1, counter))
            continue
        tr = G._InlinePredicates(ctx, f, skip, counter, depth)
        for fld, val in list(ast.iter_fields(st)):
            if isinstance(val, ast.expr):
                setattr(st, fld, tr.visit(val))
            elif isinstance(val, list) and val and all(isinstance(x, ast.expr) for x in val):
                setattr(st, fld, [tr.visit(x) for x in val])
        for fld in ("body", "orelse", "finalbody"):
            sub_ = getattr(st, fld, None)
            if isinstance(sub_, list) and sub_ and isinstance(sub_[0], ast.stmt) and not isinstance(st, (ast.FunctionDef, ast.AsyncFunctionDef, ast.ClassDef)):
                setattr(st, fld, _inline_block_fixed(ctx, f, sub_, used, skip, depth, counter))
        for h in getattr(st, "handlers", []) or []:
            h.body = _inline_block_fixed(ctx, f, h.body, used, skip, depth, counter)
        out.append(st)
    return out


def inline_helpers(ctx, f, skip=(), depth: int = 2):
    """A copy of FuncInfo `f` with statement-level calls of same-module helpers / methods of its own class replaced by
    the helper's body (arguments substituted), and single-`return` predicate helpers expanded inside expressions."""
    from . import _helpers_rob_g1 as G
    cache = ctx.__dict__.setdefault("_rob_e2_inl", {})
    k = (id(f.node), tuple(sorted(skip)), depth)
    if k in cache:
        return cache[k]
    node = copy.deepcopy(f.node)
    try:
        del node._rob_single_bindings
    except AttributeError:
        pass
    used = {n.id for n in ast.walk(node) if isinstance(n, ast.Name)} | set(G.params_of(node))
    node.body = _inline_block_fixed(ctx, f, node.body, used, set(skip), depth, [0])
    ast.fix_missing_locations(node)
    f2 = copy.copy(f)
    f2.node = node
    cache[k] = f2
    return f2
