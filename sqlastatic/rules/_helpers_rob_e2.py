"""Helpers of the robustify round for C20 / C21 (rob-E2).

* `explore_paths`  -- run a small string-building function symbolically (PyLite of rob-C1) under EVERY assignment of
                      the conditions it tests on opaque values; -> [(assignment, outcome)].  Independent of how the
                      function spells its decisions (if/else vs conditional expression, inverted tests, local aliases,
                      temporaries, `+=` vs f-string vs join).
* `local_defs` / `expand` / `norm_fn` -- copy propagation of single-assignment locals on a copy of a function.
* `dominating_atoms` -- conjunctive guard atoms (expr, polarity) that hold at a statement: CFG branch outcomes
                      (early returns, inverted if/else, nested ifs) + conditional expressions inside the statement.
"""

from __future__ import annotations

import ast
import copy
from typing import Dict, List, Optional, Sequence, Tuple

from ..astutil import name_stores, parent_map, unparse, walk_local
from ._helpers_rob_c1 import Opaque, PyLite, SStr, Unsupported, single_bindings
from ._helpers_rob_g1 import ast_atoms, expand_expr


# ---------------------------------------------------------------------------------------------- path exploration
class NeedAtom(Exception):
    def __init__(self, atom):
        self.atom = atom


def _norm_atom(label: str) -> Tuple[str, bool]:
    """(canonical atom text, polarity): `x is not None` -> (`x is None`, False), `a not in b` -> (`a in b`, False),
    `a != b` -> (`a == b`, False)."""
    for neg, pos in ((" is not ", " is "), (" not in ", " in "), (" != ", " == ")):
        if neg in label:
            return label.replace(neg, pos, 1), False
    return label, True


class _Forking(PyLite):
    """PyLite whose undecided conditions are answered from `self.assign` (canonical atom -> bool); a condition not yet
    assigned raises NeedAtom so that the driver can fork.  Loops / comprehensions over an opaque sequence run ONE
    symbolic iteration with the target bound to `elem(<sequence>)`."""

    def __init__(self, ctx, module, assign, cls=None, no_follow=(), max_depth=4):
        super().__init__(ctx, module, truth=self._ask, max_depth=max_depth, cls=cls, no_follow=no_follow)
        self.assign = assign

    def _ask(self, label):
        atom, pol = _norm_atom(label)
        if atom not in self.assign:
            raise NeedAtom(atom)
        return self.assign[atom] == pol

    def _elem(self, seq: Opaque, target):
        if isinstance(target, (ast.Tuple, ast.List)):
            return tuple(Opaque(f"elem({seq.label})[{i}]") for i, _ in enumerate(target.elts))
        return Opaque(f"elem({seq.label})")

    def _comp(self, gens, i, env, depth, emit):
        if i < len(gens):
            seq = self.ev(gens[i].iter, env, depth)
            if isinstance(seq, Opaque):
                env2 = dict(env)
                self._store(gens[i].target, self._elem(seq, gens[i].target), env2, depth)
                if all(self._truth(self.ev(c, env2, depth), " (comprehension filter)") for c in gens[i].ifs):
                    self._comp(gens, i + 1, env2, depth, emit)
                return
        super()._comp(gens, i, env, depth, emit)

    def _stmt(self, st, env, depth):
        if isinstance(st, ast.For) and not st.orelse:
            seq = self.ev(st.iter, env, depth)
            if isinstance(seq, Opaque):
                self._store(st.target, self._elem(seq, st.target), env, depth)
                return self._block(st.body, env, depth)
        return super()._stmt(st, env, depth)

    def _call(self, e, env, depth):
        f = e.func
        if isinstance(f, ast.Attribute) and f.attr == "join" and len(e.args) == 1 and not e.keywords:
            recv = self.ev(f.value, env, depth)
            if isinstance(recv, (str, SStr)):
                items = self.ev(e.args[0], env, depth)
                if isinstance(items, Opaque):
                    return Opaque(f"{recv!r}.join({items.label})")
        return super()._call(e, env, depth)


def explore_paths(ctx, finfo, args: Sequence, cls=None, no_follow=(), limit: int = 2048):
    """[(assignment {atom: bool}, ('return', value) | ('raise', name))] for every combination of the opaque
    conditions `finfo` tests, given argument values `args` (Opaque / concrete).  Unsupported propagates."""
    out, work = [], [{}]
    while work:
        assign = work.pop()
        it = _Forking(ctx, finfo.module, assign, cls=cls, no_follow=no_follow)
        try:
            r = it.run(finfo, list(args))
        except NeedAtom as na:
            work.append({**assign, na.atom: True})
            work.append({**assign, na.atom: False})
            if len(work) + len(out) > limit:
                raise Unsupported(f"{finfo.qualname}: too many independent conditions")
            continue
        out.append((assign, r))
    return out


def parts_of(v) -> List[object]:
    """parts (str | Opaque) of a rendered value."""
    if isinstance(v, SStr):
        return list(v.parts)
    if isinstance(v, (str, Opaque)):
        return [v]
    return []


# ---------------------------------------------------------------------------------------------- copy propagation
def local_defs(fnode) -> Dict[str, ast.expr]:
    """single-assignment locals of fnode (not parameters / loop targets / augmented)."""
    return dict(single_bindings(fnode))


def expand(fnode, expr: ast.AST, keep=(), depth: int = 4) -> ast.AST:
    """`expr` with the single-assignment locals of `fnode` replaced by their defining expressions."""
    return expand_expr(expr, local_defs(fnode), keep=keep, depth=depth)


def ternary_atoms(pm, node, stop) -> List[Tuple[ast.expr, bool]]:
    """(test, polarity) of the conditional expressions / and-or operands enclosing `node` below statement `stop`."""
    out = []
    cur, child = pm.get(node), node
    while cur is not None and cur is not stop:
        if isinstance(cur, ast.IfExp):
            if child is cur.body:
                out.append((cur.test, True))
            elif child is cur.orelse:
                out.append((cur.test, False))
        elif isinstance(cur, ast.BoolOp):
            idx = next((i for i, v in enumerate(cur.values) if v is child), 0)
            for v in cur.values[:idx]:
                out.append((v, isinstance(cur.op, ast.And)))
        child, cur = cur, pm.get(cur)
    return out


def dominating_atoms(g, stmt, fnode=None) -> List[Tuple[ast.expr, bool]]:
    """conjunctive atoms (expr, polarity) implied by the branch outcomes that dominate `stmt` in CFG `g`; the atoms of
    a test are split (`a and b` taken -> a, b; `a or b` refused -> not a, not b); single-assignment boolean locals
    used as tests are expanded when `fnode` is given."""
    nodes = g.nodes_for(stmt)
    if not nodes:
        return []
    out = []
    defs = local_defs(fnode) if fnode is not None else {}
    for test, pol in g.edge_guards(nodes[0]):
        t = expand_expr(test, defs) if defs else test
        out.extend(ast_atoms(t, pol))
    return out
