"""Helpers of the rob-H2 robustification pass (C09, C18, C55).

Everything here works on `ast` only -- nothing imports or runs SQLAlchemy.

* `PathInterp`   a small path-enumerating abstract interpreter for short, loop-free "factory" methods (methods that
                 pick values, define closures and return one of them).  Values are Python constants, `Abs` objects
                 supplied by the client's hooks, `Closure`s, or opaque values.  Whenever the truth value of an abstract
                 value is needed, the interpreter consults the *assumptions* of the current path; an undecided variable
                 forks the path (the function is simply re-executed under both assumptions), so one variable has ONE
                 value along a path: `if x: ...` followed later by `if not x: ...`, `if x is None`, a boolean local
                 `flag = a and not b`, an inverted if/else, an early return or a conditional expression are all the
                 same thing to a client that looks at (assumptions, returned value) pairs instead of `if` shapes.
                 Closures are values; `call_closure` applies one to abstract arguments (late binding of the enclosing
                 scope, like Python).  Calls of helpers that the client resolves (`resolver`) are followed.
                 Anything outside the subset raises `Unsupported` (-> exit 2 in the rule), never a verdict.
* `dominating_atoms`  the (atom text, polarity) facts that hold whenever a statement executes: lexical guards of the
                 node inside its statement + CFG branch outcomes dominating the statement (early returns, De Morgan,
                 nested ifs), with boolean locals that are bound once expanded into their definition.
"""

from __future__ import annotations

import ast
from typing import Callable, Dict, List, Tuple

from ..astutil import lexical_guards, name_stores, test_atoms, unparse


class Unsupported(Exception):
    pass


class _Need(Exception):
    def __init__(self, var):
        self.var = var


class _Return(Exception):
    def __init__(self, value):
        self.value = value


class _Raise(Exception):
    pass


class Abs:
    """Base of client-defined abstract values.
    truth_var: name of the path variable that decides truthiness, or True / False for a fixed truth value.
    none_var:  (var, polarity): `value is None` <=> assumptions[var] == polarity; or False: never None."""
    truth_var = True
    none_var = False

    def __repr__(self):
        return f"<{type(self).__name__}>"


class Opq(Abs):
    """An opaque value, identified by the text of the expression that produced it."""

    def __init__(self, text):
        self.text = text
        self.truth_var = "truthy:" + text
        self.none_var = ("none:" + text, True)

    def __repr__(self):
        return f"<?{self.text}>"

    def __eq__(self, o):
        return isinstance(o, Opq) and o.text == self.text

    def __hash__(self):
        return hash(self.text)


class Closure(Abs):
    def __init__(self, node, env):
        self.node = node
        self.env = env  # the defining scope (by reference: late binding)

    def __repr__(self):
        return f"<closure {getattr(self.node, 'name', 'lambda')}@{self.node.lineno}>"


class PathInterp:
    """hooks (all optional):
       attr(node, base_value, env, self)          -> value | NotImplemented
       call(node, fval, args, kwargs, env, self)  -> value | NotImplemented   (args already evaluated)
       resolver(node, fval)                       -> (FunctionDef, {param: value} pre-bound) | None  (helper to follow)
    """

    MAX_PATHS = 512

    def __init__(self, attr=None, call=None, resolver=None, what="function", max_depth=3):
        self.attr_hook = attr
        self.call_hook = call
        self.resolver = resolver
        self.what = what
        self.max_depth = max_depth
        self.assume: Dict[str, bool] = {}
        self.events: list = []
        self.depth = 0

    # ------------------------------------------------------------------ path variables
    def decide(self, var) -> bool:
        if var is True or var is False:
            return var
        if var not in self.assume:
            raise _Need(var)
        return self.assume[var]

    def truth(self, v) -> bool:
        if isinstance(v, Abs):
            return self.decide(v.truth_var)
        if isinstance(v, (tuple, list, dict, set, frozenset)):
            return bool(v)
        return bool(v)

    def is_none(self, v) -> bool:
        if v is None:
            return True
        if isinstance(v, Abs):
            nv = v.none_var
            if nv is False:
                return False
            var, pol = nv
            return self.decide(var) == pol
        return False

    # ------------------------------------------------------------------ expressions
    def ev(self, n, env):
        if isinstance(n, ast.Constant):
            return n.value
        if isinstance(n, ast.Name):
            if n.id in env:
                return env[n.id]
            if n.id in ("None", "True", "False"):
                return {"None": None, "True": True, "False": False}[n.id]
            return Opq(n.id)
        if isinstance(n, ast.Attribute):
            base = self.ev(n.value, env)
            if self.attr_hook is not None:
                r = self.attr_hook(n, base, env, self)
                if r is not NotImplemented:
                    return r
            return Opq(unparse(n))
        if isinstance(n, ast.Call):
            fval = self.ev(n.func, env)
            args = []
            for a in n.args:
                if isinstance(a, ast.Starred):
                    args.append(Opq("*" + unparse(a.value)))
                    self.ev(a.value, env)
                else:
                    args.append(self.ev(a, env))
            kwargs = {}
            for k in n.keywords:
                v = self.ev(k.value, env)
                if k.arg:
                    kwargs[k.arg] = v
            if self.call_hook is not None:
                r = self.call_hook(n, fval, args, kwargs, env, self)
                if r is not NotImplemented:
                    return r
            if isinstance(fval, Closure):
                return self.call_closure(fval, args, kwargs)
            if self.resolver is not None and self.depth < self.max_depth:
                tgt = self.resolver(n, fval)
                if tgt is not None:
                    fn, pre = tgt
                    return self.call_function(fn, args, kwargs, dict(pre))
            return Opq(unparse(n))
        if isinstance(n, ast.IfExp):
            return self.ev(n.body if self.truth(self.ev(n.test, env)) else n.orelse, env)
        if isinstance(n, ast.UnaryOp) and isinstance(n.op, ast.Not):
            return not self.truth(self.ev(n.operand, env))
        if isinstance(n, ast.BoolOp):
            v = None
            for sub in n.values:
                v = self.ev(sub, env)
                t = self.truth(v)
                if isinstance(n.op, ast.And) and not t:
                    return v
                if isinstance(n.op, ast.Or) and t:
                    return v
            return v
        if isinstance(n, ast.Compare) and len(n.ops) == 1:
            a, b = self.ev(n.left, env), self.ev(n.comparators[0], env)
            op = n.ops[0]
            if isinstance(op, (ast.Is, ast.IsNot)):
                if b is None or a is None:
                    other = a if b is None else b
                    r = self.is_none(other)
                    return r if isinstance(op, ast.Is) else not r
                if isinstance(a, bool) and isinstance(b, bool):
                    return (a is b) if isinstance(op, ast.Is) else (a is not b)
                if isinstance(a, Abs) and a is b:
                    return isinstance(op, ast.Is)
            if isinstance(op, (ast.Eq, ast.NotEq)) and not isinstance(a, Abs) and not isinstance(b, Abs):
                return (a == b) if isinstance(op, ast.Eq) else (a != b)
            return Opq(unparse(n))
        if isinstance(n, ast.Tuple):
            return tuple(self.ev(e, env) for e in n.elts)
        if isinstance(n, ast.List):
            return [self.ev(e, env) for e in n.elts]
        if isinstance(n, ast.Lambda):
            return Closure(n, env)
        if isinstance(n, ast.NamedExpr) and isinstance(n.target, ast.Name):
            v = self.ev(n.value, env)
            env[n.target.id] = v
            return v
        for c in ast.iter_child_nodes(n):
            if isinstance(c, ast.expr):
                self.ev(c, env)
        return Opq(unparse(n))

    # ------------------------------------------------------------------ statements
    def _assign(self, t, v, env):
        if isinstance(t, ast.Name):
            env[t.id] = v
        elif isinstance(t, (ast.Tuple, ast.List)):
            if isinstance(v, (tuple, list)) and len(v) == len(t.elts) and not any(isinstance(e, ast.Starred) for e in t.elts):
                for tt, vv in zip(t.elts, v):
                    self._assign(tt, vv, env)
            else:
                for tt in t.elts:
                    self._assign(tt.value if isinstance(tt, ast.Starred) else tt, Opq(unparse(tt)), env)
        else:
            # attribute / subscript stores: evaluate for effects on the client's event list only
            self.events.append(("store", t, v))

    def block(self, stmts, env):
        for st in stmts:
            if isinstance(st, ast.If):
                self.block(st.body if self.truth(self.ev(st.test, env)) else st.orelse, env)
            elif isinstance(st, ast.Return):
                raise _Return(self.ev(st.value, env) if st.value is not None else None)
            elif isinstance(st, ast.Raise):
                raise _Raise()
            elif isinstance(st, ast.Assign):
                v = self.ev(st.value, env)
                for t in st.targets:
                    self._assign(t, v, env)
            elif isinstance(st, ast.AnnAssign):
                if st.value is not None:
                    self._assign(st.target, self.ev(st.value, env), env)
            elif isinstance(st, ast.AugAssign):
                self.ev(st.value, env)
                if isinstance(st.target, ast.Name):
                    env[st.target.id] = Opq(unparse(st))
            elif isinstance(st, ast.Expr):
                self.ev(st.value, env)
            elif isinstance(st, (ast.FunctionDef,)):
                env[st.name] = Closure(st, env)
            elif isinstance(st, (ast.Pass, ast.Import, ast.ImportFrom, ast.Global, ast.Nonlocal)):
                pass
            elif isinstance(st, ast.Assert):
                # an assert that fails ends the path (an undecided one forks like any other test)
                if not self.truth(self.ev(st.test, env)):
                    raise _Raise()
            else:
                raise Unsupported(f"{self.what}: statement kind {type(st).__name__} (line {st.lineno})")

    # ------------------------------------------------------------------ calls
    def _bind(self, fn, args, kwargs, pre, env):
        a = fn.args
        names = [x.arg for x in a.posonlyargs + a.args]
        defaults = dict(zip(reversed(names), reversed(a.defaults))) if a.defaults else {}
        bound = dict(pre)
        free = [nm for nm in names if nm not in bound]
        if len(args) > len(free) and a.vararg is None:
            raise Unsupported(f"{self.what}: too many arguments for {getattr(fn, 'name', 'lambda')}")
        for nm, v in zip(free, args):
            bound[nm] = v
        for k, v in kwargs.items():
            bound[k] = v
        for nm in names:
            if nm not in bound:
                bound[nm] = self.ev(defaults[nm], env) if nm in defaults else Opq(nm)
        for x, d in zip(a.kwonlyargs, a.kw_defaults):
            if x.arg not in bound:
                bound[x.arg] = self.ev(d, env) if d is not None else Opq(x.arg)
        if a.vararg is not None:
            bound[a.vararg.arg] = Opq("*" + a.vararg.arg)
        if a.kwarg is not None:
            bound[a.kwarg.arg] = Opq("**" + a.kwarg.arg)
        return bound

    def _run_body(self, fn, local):
        if isinstance(fn, ast.Lambda):
            return self.ev(fn.body, local)
        self.depth += 1
        try:
            self.block(fn.body, local)
        except _Return as r:
            return r.value
        finally:
            self.depth -= 1
        return None

    def call_closure(self, c: Closure, args, kwargs=None):
        local = _Scope(c.env)
        local.update(self._bind(c.node, list(args), dict(kwargs or {}), {}, c.env))
        return self._run_body(c.node, local)

    def call_function(self, fn, args, kwargs, pre):
        local = dict(self._bind(fn, list(args), dict(kwargs or {}), pre, {}))
        return self._run_body(fn, local)

    # ------------------------------------------------------------------ driver
    def explore(self, run: Callable[["PathInterp"], object], initial=None) -> List[Tuple[Dict[str, bool], str, object, list]]:
        """Run `run(self)` under every consistent assignment of the path variables it asks for (starting from the
        assumptions `initial`).  -> [(assumptions, 'return' | 'raise', value, events)]"""
        out = []
        work = [dict(initial or {})]
        while work:
            if len(out) + len(work) > self.MAX_PATHS:
                raise Unsupported(f"{self.what}: more than {self.MAX_PATHS} paths")
            self.assume = work.pop()
            self.events = []
            self.depth = 0
            try:
                v = run(self)
                out.append((dict(self.assume), "return", v, self.events))
            except _Need as need:
                base = dict(self.assume)
                work.append({**base, need.var: False})
                work.append({**base, need.var: True})
            except _Raise:
                out.append((dict(self.assume), "raise", None, self.events))
            except _Return as r:  # a return at the top level of `run`
                out.append((dict(self.assume), "return", r.value, self.events))
        return out

    def run_function(self, fn, env):
        """explore() over the body of a FunctionDef with the initial environment `env` (copied per path)."""
        def run(ix):
            local = dict(env)
            try:
                ix.block(fn.body, local)
            except _Return as r:
                return r.value
            return None
        return self.explore(run)


class _Scope(dict):
    """local scope of a closure: reads fall through to the enclosing scope (late binding)."""

    def __init__(self, outer):
        super().__init__()
        self.outer = outer

    def __contains__(self, k):
        return dict.__contains__(self, k) or k in self.outer

    def __getitem__(self, k):
        if dict.__contains__(self, k):
            return dict.__getitem__(self, k)
        return self.outer[k]

    def get(self, k, default=None):
        return self[k] if k in self else default


# ---------------------------------------------------------------------------------------------- dominating guards
def _once_bound_bool_locals(fnode) -> Dict[str, ast.expr]:
    """{name: test expression} for locals bound exactly once by a plain assignment whose value is a boolean
    combination / comparison / negation (a guard given a name)."""
    counts: Dict[str, int] = {}
    vals: Dict[str, ast.expr] = {}
    for n, v, st in name_stores(fnode):
        counts[n] = counts.get(n, 0) + 1
        if v is not None and isinstance(st, (ast.Assign, ast.AnnAssign)) and isinstance(v, (ast.BoolOp, ast.Compare, ast.UnaryOp)):
            vals[n] = v
        else:
            counts[n] += 1
    return {n: v for n, v in vals.items() if counts[n] == 1}


def expand_guard_atoms(fnode, guards) -> List[Tuple[str, bool]]:
    """guard_atoms(), with atoms that are a once-bound boolean local replaced by the atoms of its definition."""
    defs = _once_bound_bool_locals(fnode)
    out = []

    def add(test, pol, depth=0):
        for a, p in test_atoms(test, pol):
            if a in defs and depth < 4:
                sub = test_atoms(defs[a], p)
                # `not (x and y)` has no conjunctive atoms: test_atoms returns nothing useful for it; keep what it gives
                for a2, p2 in sub:
                    if a2 in defs and depth < 3:
                        add(defs[a2], p2, depth + 1)
                    else:
                        out.append((a2, p2))
            else:
                out.append((a, p))

    for t, pol in guards:
        add(t, pol)
    return out


def dominating_atoms(ctx, f, node) -> set:
    """{(atom text, polarity)} that hold whenever `node` (an expression or statement inside function `f`) executes:
    lexical guards + the CFG branch outcomes that dominate its statement, boolean locals expanded."""
    pm = f.module.parents()
    cur = node
    while cur is not None and not isinstance(cur, ast.stmt):
        cur = pm.get(cur)
    guards = list(lexical_guards(pm, node, stop=f.node))
    if cur is not None:
        g = ctx.cfg(f)
        per_node = [list(g.edge_guards(nid)) for nid in g.nodes_for(cur)]
        if per_node:
            # a statement duplicated into several finally copies: keep what holds for every copy
            first = per_node[0]
            keep = [x for x in first if all(any(x[0] is y[0] and x[1] == y[1] for y in other) for other in per_node[1:])]
            guards.extend(keep)
    return set(expand_guard_atoms(f.node, guards))
