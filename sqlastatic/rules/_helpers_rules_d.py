"""Small helpers shared by the rule modules written by agent rules-d (C31..C35, C44, C47, C48)."""

from __future__ import annotations

import ast
from typing import Iterable, List, Optional, Set

from ..astutil import call_name, calls_in, dotted, own_exprs, test_atoms, unparse


def call_nodes(g, pred) -> List[int]:
    """CFG nodes whose OWN expression part contains a call satisfying pred(call)."""
    out = []
    for n in g.nodes:
        if n.stmt is None or n.kind in ("with_exit", "handler", "join") or not isinstance(n.stmt, ast.stmt):
            continue
        hit = False
        for part in own_exprs(n.stmt):
            for c in calls_in(part):
                if pred(c):
                    hit = True
        if hit:
            out.append(n.id)
    return out


def callee_is(c: ast.Call, *suffixes: str) -> bool:
    nm = call_name(c)
    if nm is None and isinstance(c.func, ast.Attribute):
        nm = "?." + c.func.attr
    return nm is not None and any(nm == s or nm.endswith("." + s) for s in suffixes)


def attr_store_nodes(g, attr: str, value_pred=None, recv: Optional[str] = None) -> List[int]:
    """CFG nodes of `<recv>.<attr> = <value>` (value_pred(value node) -> bool)."""
    out = []
    for n in g.nodes:
        st = n.stmt
        if n.kind != "stmt" or not isinstance(st, (ast.Assign, ast.AnnAssign)):
            continue
        tg = st.targets if isinstance(st, ast.Assign) else [st.target]
        if getattr(st, "value", None) is None:
            continue
        for t in tg:
            if isinstance(t, ast.Attribute) and t.attr == attr and (recv is None or dotted(t.value) == recv):
                if value_pred is None or value_pred(st.value):
                    out.append(n.id)
    return out


def const_is(v, value) -> bool:
    return isinstance(v, ast.Constant) and v.value is value


def ends_with_name(v, name: str) -> bool:
    """Expression is a Name/Attribute chain whose last component is `name`."""
    d = dotted(v) if isinstance(v, (ast.Name, ast.Attribute)) else None
    return d is not None and d.rsplit(".", 1)[-1] == name


def guard_atom_set(g, node: int) -> Set:
    out = set()
    for t, pol in g.edge_guards(node):
        out.update(test_atoms(t, pol))
    return out


def is_catch_all(h: ast.ExceptHandler) -> bool:
    if h.type is None:
        return True
    names = h.type.elts if isinstance(h.type, ast.Tuple) else [h.type]
    return any((dotted(n) or "").rsplit(".", 1)[-1] == "BaseException" for n in names)


def kw(c: ast.Call, name: str):
    for k in c.keywords:
        if k.arg == name:
            return k.value
    return None


def lexically_inside(pm, node, container_stmts: Iterable[ast.stmt]) -> bool:
    ids = {id(s) for s in container_stmts}
    cur = node
    while cur is not None:
        if id(cur) in ids:
            return True
        cur = pm.get(cur)
    return False


def qualname(pm, node) -> str:
    parts = []
    cur = pm.get(node)
    while cur is not None:
        if isinstance(cur, (ast.FunctionDef, ast.AsyncFunctionDef, ast.ClassDef)):
            parts.append(cur.name)
        cur = pm.get(cur)
    return ".".join(reversed(parts))
