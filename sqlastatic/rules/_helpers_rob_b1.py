"""Helpers of the rob-B1 robustification pass (C19, C31, C32): normalisation of everyday refactorings.

* guards: lexical guards + CFG-dominating branch outcomes of a statement (early `continue`/`return` forms),
  with single-assignment boolean locals and one-level predicate helpers (`def _ready(..): return <expr>`)
  expanded before the condition is split into atoms;
* aliases: single-assignment locals resolved to the expression they stand for (`deps = self.dependencies`);
* helpers: `self._helper(..)` / module function called as a statement is located so that a rule can continue
  its structural query in the callee (the caller's names are mapped onto the callee's parameters).

Nothing here is property specific; only c19.py / c31.py / c32.py import it.
"""

from __future__ import annotations

import ast
import copy
from typing import Dict, List, Optional, Tuple

from ..astutil import call_name, dotted, lexical_guards, name_stores, test_atoms, unparse, walk_local


# ------------------------------------------------------------------------------------------ bindings
def bindings(fnode) -> Dict[str, List[Tuple[Optional[ast.AST], ast.stmt]]]:
    out: Dict[str, List[Tuple[Optional[ast.AST], ast.stmt]]] = {}
    for n, v, st in name_stores(fnode):
        out.setdefault(n, []).append((v, st))
    return out


def params_of(fnode) -> List[str]:
    a = fnode.args
    out = [x.arg for x in a.posonlyargs + a.args + a.kwonlyargs]
    if a.vararg:
        out.append(a.vararg.arg)
    if a.kwarg:
        out.append(a.kwarg.arg)
    return out


def single_value(fnode, name: str, binds=None) -> Optional[ast.AST]:
    """The value of a local that is bound exactly once by a plain assignment (and is not a parameter)."""
    if name in params_of(fnode):
        return None
    bs = (binds if binds is not None else bindings(fnode)).get(name, [])
    if len(bs) == 1 and bs[0][0] is not None:
        return bs[0][0]
    return None


def resolve_alias(fnode, expr: ast.AST, binds=None, depth: int = 4) -> ast.AST:
    """Follow `x = <expr>` single-assignment locals: the expression a bare Name stands for."""
    binds = binds if binds is not None else bindings(fnode)
    while depth > 0 and isinstance(expr, ast.Name):
        v = single_value(fnode, expr.id, binds)
        if v is None:
            break
        expr = v
        depth -= 1
    return expr


def resolved_dotted(fnode, expr: ast.AST, binds=None) -> Optional[str]:
    """dotted() of an expression after replacing a leading single-assignment alias
    (`sess = self.session; sess._new` -> `self.session._new`)."""
    binds = binds if binds is not None else bindings(fnode)
    d = dotted(expr)
    if d is None:
        return None
    head, _, rest = d.partition(".")
    seen = set()
    while head not in seen:
        seen.add(head)
        v = single_value(fnode, head, binds)
        if v is None:
            break
        dv = dotted(v)
        if dv is None or "()" in dv:
            break
        d = dv + ("." + rest if rest else "")
        head, _, rest = d.partition(".")
    return d


# ------------------------------------------------------------------------------------------ substitution / inlining
class _Subst(ast.NodeTransformer):
    def __init__(self, mapping: Dict[str, ast.AST]):
        self.mapping = mapping

    def visit_Name(self, node):
        if isinstance(node.ctx, ast.Load) and node.id in self.mapping:
            return copy.deepcopy(self.mapping[node.id])
        return node


def substitute(expr: ast.AST, mapping: Dict[str, ast.AST]) -> ast.AST:
    return ast.fix_missing_locations(_Subst(mapping).visit(copy.deepcopy(expr)))


def _body_wo_doc(fnode) -> List[ast.stmt]:
    body = list(fnode.body)
    if body and isinstance(body[0], ast.Expr) and isinstance(body[0].value, ast.Constant) and isinstance(body[0].value.value, str):
        body = body[1:]
    return body


def resolve_callee(ctx, f, call: ast.Call):
    """FuncInfo of a `helper(..)` (module function of f's module, followed through imports) or
    `self.helper(..)` / `cls.helper(..)` / `ClassName.helper(..)` call; None if not found."""
    nm = call_name(call) or ""
    if not nm or "()" in nm:
        return None
    head, _, meth = nm.rpartition(".")
    if head in ("self", "cls") and f.cls is not None:
        m = ctx.index.resolve_method(f.cls, meth)
        return m if m is not None and hasattr(m, "node") else None
    try:
        r = ctx.index.resolve(f.module, nm)
    except Exception:
        r = None
    if r is not None and hasattr(r, "params") and hasattr(r, "node"):
        return r
    return None


def bind_args(call: ast.Call, callee) -> Optional[Dict[str, ast.AST]]:
    """{parameter name: argument expression} for a call of `callee` (self/cls of methods skipped);
    None when the call uses *args/**kwargs or does not fit."""
    a = callee.node.args
    names = [x.arg for x in a.posonlyargs + a.args]
    if callee.cls is not None and names and names[0] in ("self", "cls") and "staticmethod" not in " ".join(callee.decorators):
        names = names[1:]
    if any(isinstance(x, ast.Starred) for x in call.args) or any(k.arg is None for k in call.keywords):
        return None
    if len(call.args) > len(names):
        return None
    out = dict(zip(names, call.args))
    kwonly = [x.arg for x in a.kwonlyargs]
    for k in call.keywords:
        if k.arg not in names + kwonly or k.arg in out:
            return None
        out[k.arg] = k.value
    return out


def inline_predicate(ctx, f, call: ast.Call) -> Optional[ast.AST]:
    """`helper(args)` where helper's body is a single `return <expr>`: <expr> with the arguments substituted."""
    callee = resolve_callee(ctx, f, call)
    if callee is None:
        return None
    body = _body_wo_doc(callee.node)
    if len(body) != 1 or not isinstance(body[0], ast.Return) or body[0].value is None:
        return None
    m = bind_args(call, callee)
    if m is None:
        return None
    ctx.functions_analysed.add(callee.key)
    return substitute(body[0].value, m)


def expand_test(ctx, f, test: ast.AST, binds=None, depth: int = 3) -> ast.AST:
    """Rewrite a branch condition so that boolean locals bound once (`ok = a and not b; if ok:`) and one-level
    predicate helpers are replaced by the expression they stand for (through not/and/or)."""
    binds = binds if binds is not None else bindings(f.node)
    if depth <= 0:
        return test
    if isinstance(test, ast.UnaryOp) and isinstance(test.op, ast.Not):
        return ast.UnaryOp(op=ast.Not(), operand=expand_test(ctx, f, test.operand, binds, depth))
    if isinstance(test, ast.BoolOp):
        return ast.BoolOp(op=test.op, values=[expand_test(ctx, f, v, binds, depth) for v in test.values])
    if isinstance(test, ast.Name):
        v = single_value(f.node, test.id, binds)
        if v is not None and isinstance(v, (ast.BoolOp, ast.UnaryOp, ast.Compare, ast.Call, ast.Attribute, ast.Name)):
            return expand_test(ctx, f, v, binds, depth - 1)
        return test
    if isinstance(test, ast.Call):
        e = inline_predicate(ctx, f, test)
        if e is not None:
            return expand_test(ctx, f, e, binds, depth - 1)
    return _dealias(f.node, test, binds)


def _dealias(fnode, expr: ast.AST, binds) -> ast.AST:
    """inside an atomic condition: locals bound once to a plain attribute chain (`exc = self._rollback_exception`,
    `sess = self.session`) are replaced by the chain, so `exc is None` reads `self._rollback_exception is None`"""
    mapping = {}
    for n in ast.walk(expr):
        if isinstance(n, ast.Name) and isinstance(n.ctx, ast.Load) and n.id not in mapping:
            v = single_value(fnode, n.id, binds)
            hops = 0
            while isinstance(v, ast.Name) and hops < 3:
                v2 = single_value(fnode, v.id, binds)
                if v2 is None:
                    break
                v, hops = v2, hops + 1
            if isinstance(v, ast.Attribute):
                d = dotted(v)
                if d is not None and "()" not in d:
                    mapping[n.id] = v
    return substitute(expr, mapping) if mapping else expr


def dominating_guards(g, pm, fnode, node: ast.AST, stmt: Optional[ast.stmt] = None) -> List[Tuple[ast.AST, bool]]:
    """(test, polarity) outcomes under which `node` runs: the lexical if/elif/else/ternary/and/or structure plus
    the branch outcomes that dominate its statement on the CFG (guard clauses with continue/return/raise)."""
    out = list(lexical_guards(pm, node, stop=fnode))
    seen = {(id(t), p) for t, p in out}
    if stmt is not None:
        for nid in g.nodes_for(stmt)[:1]:
            for t, p in g.edge_guards(nid):
                if (id(t), p) not in seen:
                    seen.add((id(t), p))
                    out.append((t, p))
    return out


def expanded_atoms(ctx, f, guards, binds=None) -> List[Tuple[str, bool]]:
    """guard_atoms() after expand_test(): [(atom text, polarity)]"""
    binds = binds if binds is not None else bindings(f.node)
    out = []
    for t, pol in guards:
        for a in test_atoms(t, pol) + test_atoms(expand_test(ctx, f, t, binds), pol):
            if a not in out:
                out.append(a)   # the atoms as written are facts too (a local list tested for emptiness)
    return out


# ------------------------------------------------------------------------------------------ helper calls as statements
def helper_calls(ctx, f, within: Optional[ast.AST] = None):
    """[(call, callee FuncInfo, {param: arg})] for calls inside `within` (default: f) of methods of f's class /
    functions of f's module whose definition is available."""
    out = []
    root = within if within is not None else f.node
    for n in walk_local(root) if root is f.node else ast.walk(root):
        if isinstance(n, ast.Call):
            callee = resolve_callee(ctx, f, n)
            if callee is None or callee.node is f.node:
                continue
            if callee.module is not f.module:
                continue
            m = bind_args(n, callee)
            if m is None:
                continue
            out.append((n, callee, m))
    return out


# ------------------------------------------------------------------------------------------ CFG with raising helpers
def always_raises(fnode) -> bool:
    """A function that cannot return normally by its own text: no `return`/`yield`, and its body ends in a
    `raise` (the everyday shape of an extracted `_raise_xyz()` helper that lacks a `-> NoReturn` annotation)."""
    for n in walk_local(fnode):
        if isinstance(n, (ast.Return, ast.Yield, ast.YieldFrom)):
            return False
    body = _body_wo_doc(fnode)
    return bool(body) and isinstance(body[-1], ast.Raise)


def cfg_following_raisers(ctx, f):
    """CFG of f in which a bare-expression call of a `-> NoReturn` function OR of a same-module/same-class helper
    that always raises ends the path."""
    from ..cfg import CFG
    cache = ctx.__dict__.setdefault("_rob_b1_cfg", {})
    if id(f.node) in cache:
        return cache[id(f.node)]
    nr = ctx.noreturn_names()

    def noreturn(call: ast.Call) -> bool:
        fn = call.func
        nm = fn.attr if isinstance(fn, ast.Attribute) else (fn.id if isinstance(fn, ast.Name) else None)
        if nm in nr:
            return True
        callee = resolve_callee(ctx, f, call)
        return callee is not None and callee.node is not f.node and always_raises(callee.node)

    g = CFG(f.node, noreturn=noreturn)
    cache[id(f.node)] = g
    ctx.functions_analysed.add(f.key)
    return g


# ------------------------------------------------------------------------------------------ extract-method normalisation
class _Rename(ast.NodeTransformer):
    def __init__(self, mapping: Dict[str, str]):
        self.mapping = mapping

    def visit_Name(self, node):
        if node.id in self.mapping:
            return ast.copy_location(ast.Name(id=self.mapping[node.id], ctx=node.ctx), node)
        return node


def _simple_arg(e) -> bool:
    while isinstance(e, ast.Attribute):
        e = e.value
    return isinstance(e, (ast.Name, ast.Constant))


def _inline_call(ctx, f, call: ast.Call, mode: str, used: set, skip, targets=None) -> Optional[List[ast.stmt]]:
    """Statements equivalent to `helper(..)` (mode 'expr'), `<targets> = helper(..)` ('assign') or
    `return helper(..)` ('return'), or None when the helper cannot be inlined faithfully."""
    callee = resolve_callee(ctx, f, call)
    if callee is None or callee.node is f.node or callee.module is not f.module or callee.name in skip:
        return None
    if callee.name == f.name or not isinstance(callee.node, ast.FunctionDef):
        return None
    decos = [d for d in callee.decorators if d.rsplit(".", 1)[-1] not in ("staticmethod", "classmethod")]
    if decos:
        return None
    hn = callee.node
    if any(isinstance(n, (ast.Yield, ast.YieldFrom, ast.Global, ast.Nonlocal)) for n in walk_local(hn)):
        return None
    m = bind_args(call, callee)
    if m is None:
        return None
    a = hn.args
    if a.vararg or a.kwarg:
        return None
    pos = [x.arg for x in a.posonlyargs + a.args]
    defaults = dict(zip(pos[len(pos) - len(a.defaults):], a.defaults))
    defaults.update({x.arg: d for x, d in zip(a.kwonlyargs, a.kw_defaults) if d is not None})
    own_self = None
    if callee.cls is not None and pos and pos[0] in ("self", "cls") and "staticmethod" not in " ".join(callee.decorators):
        own_self = pos[0]
        head = (call_name(call) or "").rpartition(".")[0]
        if head not in ("self", "cls"):
            return None
    for p in pos + [x.arg for x in a.kwonlyargs]:
        if p == own_self or p in m:
            continue
        if p not in defaults:
            return None
        m[p] = defaults[p]
    body = copy.deepcopy(_body_wo_doc(hn))
    if not body:
        return None
    rets = [n for st in body for n in ([st] if isinstance(st, ast.Return) else [])]
    all_rets = [n for n in walk_local(ast.Module(body=body, type_ignores=[])) if isinstance(n, ast.Return)]
    last = body[-1]
    if mode == "expr":
        if any(r is not last for r in all_rets):
            return None
        if isinstance(last, ast.Return):
            body = body[:-1] + ([ast.copy_location(ast.Expr(value=last.value), last)] if last.value is not None else [])
    elif mode == "assign":
        if not (isinstance(last, ast.Return) and last.value is not None) or any(r is not last for r in all_rets):
            return None
        body = body[:-1] + [ast.copy_location(ast.Assign(targets=copy.deepcopy(targets), value=last.value), last)]
    else:  # 'return'
        if not isinstance(last, (ast.Return, ast.Raise)):
            body.append(ast.copy_location(ast.Return(value=ast.Constant(value=None)), last))
    del rets
    stored = {n for n, v, st in name_stores(hn)}
    prologue: List[ast.stmt] = []
    subst: Dict[str, ast.AST] = {}
    rename: Dict[str, str] = {}
    for p, arg in m.items():
        if p not in stored and (_simple_arg(arg) or sum(1 for n in walk_local(hn) if isinstance(n, ast.Name) and n.id == p) <= 1):
            subst[p] = arg
        else:
            new = p if p not in used else p + "__inl"
            if new != p:
                rename[p] = new
            prologue.append(ast.copy_location(ast.Assign(targets=[ast.Name(id=new, ctx=ast.Store())], value=copy.deepcopy(arg)), call))
    for loc_name in stored - set(m):
        if loc_name in used:
            rename[loc_name] = loc_name + "__inl"
    mod = ast.Module(body=body, type_ignores=[])
    if rename:
        mod = _Rename(rename).visit(mod)
    if subst:
        mod = _Subst(subst).visit(mod)
    used.update(rename.values())
    used.update(stored)
    ctx.functions_analysed.add(callee.key)
    out = prologue + list(mod.body)
    for st in out:
        ast.fix_missing_locations(st)
    return out


def _inline_block(ctx, f, body: List[ast.stmt], used: set, skip, depth: int) -> List[ast.stmt]:
    out: List[ast.stmt] = []
    for st in body:
        repl = None
        if depth > 0:
            if isinstance(st, ast.Expr) and isinstance(st.value, ast.Call):
                repl = _inline_call(ctx, f, st.value, "expr", used, skip)
            elif isinstance(st, ast.Assign) and isinstance(st.value, ast.Call):
                repl = _inline_call(ctx, f, st.value, "assign", used, skip, st.targets)
            elif isinstance(st, ast.Return) and isinstance(st.value, ast.Call):
                repl = _inline_call(ctx, f, st.value, "return", used, skip)
        if repl is not None:
            out.extend(_inline_block(ctx, f, repl, used, skip, depth - 1))
            continue
        for fld in ("body", "orelse", "finalbody"):
            sub_ = getattr(st, fld, None)
            if isinstance(sub_, list) and sub_ and isinstance(sub_[0], ast.stmt) and not isinstance(st, (ast.FunctionDef, ast.AsyncFunctionDef, ast.ClassDef)):
                setattr(st, fld, _inline_block(ctx, f, sub_, used, skip, depth))
        for h in getattr(st, "handlers", []) or []:
            h.body = _inline_block(ctx, f, h.body, used, skip, depth)
        out.append(st)
    return out


def inline_helpers(ctx, f, skip=(), depth: int = 2):
    """A copy of FuncInfo `f` whose AST has the statement-level calls of same-module helpers / methods of its own
    class (`self._part_two(x)`, `y = self._compute(x)`, `return self._rest(x)`) replaced by the helper's body with
    the arguments substituted -- the inverse of 'extract method'.  Helpers named in `skip`, generators, decorated
    functions and helpers with early returns (unless called as `return helper(..)`) stay calls.
    The result has fresh AST nodes: use `parent_map(f2.node)` and `ctx.cfg(f2.node)` / `cfg_following_raisers`."""
    cache = ctx.__dict__.setdefault("_rob_b1_inl", {})
    k = (id(f.node), tuple(sorted(skip)), depth)
    if k in cache:
        return cache[k]
    node = copy.deepcopy(f.node)
    used = {n.id for n in ast.walk(node) if isinstance(n, ast.Name)} | set(params_of(node))
    node.body = _inline_block(ctx, f, node.body, used, set(skip), depth)
    ast.fix_missing_locations(node)
    f2 = copy.copy(f)
    f2.node = node
    cache[k] = f2
    return f2


# ------------------------------------------------------------------------------------------ structural self-test inputs
# (test inputs only: behaviour-preserving / breaking edits expressed on the AST, so that they keep applying when
# the surrounding text changes; the edited module is re-emitted with ast.unparse)
def _find_def(tree: ast.Module, qualname: str):
    cur = tree
    for part in qualname.split("."):
        nxt = None
        for st in cur.body:
            if isinstance(st, (ast.FunctionDef, ast.AsyncFunctionDef, ast.ClassDef)) and st.name == part:
                # prefer the last real definition (overload stubs come first)
                nxt = st
        if nxt is None:
            return None, None
        parent, cur = cur, nxt
    return cur, parent


def ast_edit(qualname: str, *transforms):
    """Source edit: apply `transform(func_node, owner_node)` (in place) to the named function / method."""
    def edit(src: str) -> str:
        from ..report import MutantNotApplicable
        tree = ast.parse(src)
        fn, owner = _find_def(tree, qualname)
        if fn is None:
            raise MutantNotApplicable(f"{qualname} not found")
        for t in transforms:
            if t(fn, owner) is False:
                raise MutantNotApplicable(f"{getattr(t, '__name__', 'transform')} does not apply to {qualname}")
        ast.fix_missing_locations(tree)
        return ast.unparse(tree) + "\n"
    return edit


def _negate(test):
    if isinstance(test, ast.UnaryOp) and isinstance(test.op, ast.Not):
        return test.operand
    return ast.UnaryOp(op=ast.Not(), operand=test)


def t_invert_ifs(fn, owner=None):
    """`if c: A else: B` -> `if not c: B else: A` for every two-armed if (elif chains untouched)"""
    n = 0
    for st in ast.walk(fn):
        if isinstance(st, ast.If) and st.orelse and not (len(st.orelse) == 1 and isinstance(st.orelse[0], ast.If)):
            st.test, st.body, st.orelse = _negate(st.test), st.orelse, st.body
            n += 1
    return n > 0


def t_guard_clause(fn, owner=None):
    """last statement `if c: A else: B` -> `if not c: B; return` followed by A"""
    last = fn.body[-1]
    if not (isinstance(last, ast.If) and last.orelse and not (len(last.orelse) == 1 and isinstance(last.orelse[0], ast.If))):
        return False
    if any(isinstance(n, ast.Return) and n.value is not None for n in ast.walk(fn)):
        return False
    guard = ast.If(test=_negate(last.test), body=list(last.orelse) + [ast.Return(value=None)], orelse=[])
    fn.body = fn.body[:-1] + [guard] + list(last.body)
    return True


def t_guard_clause_no_return(fn, owner=None):
    """the broken twin of t_guard_clause: the `return` is forgotten, both arms run"""
    if t_guard_clause(fn, owner) is False:
        return False
    for st in fn.body:
        if isinstance(st, ast.If) and st.body and isinstance(st.body[-1], ast.Return):
            st.body = st.body[:-1]
    return True


def t_extract_else(name: str, reverse_first_pair: bool = False):
    """last statement `if c: A else: B` -> `else: self.<name>(<all parameters>)` with B moved to a new method
    (optionally with the first 2-tuple literal of B reversed: a broken helper)"""
    def t(fn, owner):
        last = fn.body[-1]
        if not (isinstance(last, ast.If) and last.orelse and isinstance(owner, ast.ClassDef)):
            return False
        params = [a.arg for a in fn.args.args]
        body = last.orelse
        if reverse_first_pair:
            tup = next((n for st in body for n in ast.walk(st) if isinstance(n, ast.Tuple) and len(n.elts) == 2
                        and all(isinstance(e, ast.Name) for e in n.elts)), None)
            if tup is None:
                return False
            tup.elts.reverse()
        helper = ast.FunctionDef(name=name, args=copy.deepcopy(fn.args), body=body, decorator_list=[], returns=None, type_comment=None)
        if hasattr(helper, "type_params"):
            helper.type_params = []
        call = ast.Expr(value=ast.Call(func=ast.Attribute(value=ast.Name(id=params[0], ctx=ast.Load()), attr=name, ctx=ast.Load()),
                                       args=[ast.Name(id=p, ctx=ast.Load()) for p in params[1:]], keywords=[]))
        last.orelse = [call]
        owner.body.insert(owner.body.index(fn) + 1, helper)
        return True
    t.__name__ = f"extract_else({name})"
    return t


def t_alias(expr_text: str, name: str):
    """bind `name = <expr>` at the top of the function and use the name for every later read of <expr>"""
    def t(fn, owner=None):
        want = ast.dump(ast.parse(expr_text, mode="eval").body)
        hits = 0

        class V(ast.NodeTransformer):
            def generic_visit(self, node):
                nonlocal hits
                node = super().generic_visit(node)
                if isinstance(node, ast.expr) and isinstance(getattr(node, "ctx", ast.Load()), ast.Load) and ast.dump(node) == want:
                    hits += 1
                    return ast.Name(id=name, ctx=ast.Load())
                return node
        doc = 1 if fn.body and isinstance(fn.body[0], ast.Expr) and isinstance(fn.body[0].value, ast.Constant) else 0
        new_body = [V().visit(st) for st in fn.body[doc:]]
        if not hits:
            return False
        fn.body = fn.body[:doc] + [ast.Assign(targets=[ast.Name(id=name, ctx=ast.Store())], value=ast.parse(expr_text, mode="eval").body)] + new_body
        return True
    t.__name__ = f"alias({expr_text})"
    return t
