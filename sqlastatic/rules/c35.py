"""C35 -- Object lifecycle states and events (predicate partition + dispatch exhaustiveness)."""

from __future__ import annotations

import ast
import itertools
import re
from typing import Dict, List, Optional, Tuple

from ..astutil import ancestors, call_name, calls_in, dotted, unparse, walk_local, walk_stmts
from ..report import Registry, chain, sub
from ._helpers_rob_B2 import bool_binds, expand, read_aliases, resolved_atom_set, single_binds, transitive_owner

R = Registry(
    "C35",
    title="Object lifecycle states and events follow the documented state machine",
    decides=(
        "the five lifecycle predicates of InstanceState are a partition of all assignments of (key is None, "
        "attached, _deleted); every lifecycle event of SessionEvents has a dispatch site and every dispatch site "
        "names a declared event; at each dispatch site the event fired is the one whose name matches the "
        "pre-state computed from the same atoms (attach: key decides detached/transient; detach: the four-way "
        "choice is a function of (to_transient, _deleted, key); flush/rollback/load sites are control-dependent "
        "on the state change they announce); key/session_id/_deleted are written only by the enumerated owners; the exits "
        "of the session (detach family, make_transient*) re-establish all three atoms together (`_deleted` only with a key); "
        "expunge_all() detaches the states of every collection the one-object form _expunge_states knows an attached state can live in."
    ),
    not_decided="that every API operation moves objects along the documented transition relation for all histories.",
)

STATE = "orm/state.py"
SESSION = "orm/session.py"
LOADING = "orm/loading.py"
EVENTS = "orm/events.py"
PREDICATES = ["transient", "pending", "persistent", "deleted", "detached"]
LIFECYCLE_RE = re.compile(r"^(?:(transient|pending|persistent|deleted|detached)_to_(transient|pending|persistent|deleted|detached)|loaded_as_persistent)$")


class _Unknown(Exception):
    pass


def _atom(expr, recv: str) -> Optional[Tuple[str, bool]]:
    """(atom, polarity) if `expr` is one of the lifecycle atoms read from receiver `recv`."""
    if isinstance(expr, ast.Compare) and len(expr.ops) == 1 and isinstance(expr.comparators[0], ast.Constant) and expr.comparators[0].value is None:
        if dotted(expr.left) == f"{recv}.key":
            if isinstance(expr.ops[0], ast.Is):
                return ("K", True)
            if isinstance(expr.ops[0], ast.IsNot):
                return ("K", False)
    d = dotted(expr) if isinstance(expr, (ast.Attribute, ast.Name)) else None
    if d == f"{recv}._attached":
        return ("A", True)
    if d == f"{recv}._deleted":
        return ("D", True)
    if d == f"{recv}.key":
        return ("K", False)  # truthiness of the key
    return None


def _ev(expr, recv, store, env, aliases=(), props=None):
    if isinstance(expr, ast.UnaryOp) and isinstance(expr.op, ast.Not):
        return not _ev(expr.operand, recv, store, env, aliases, props)
    if isinstance(expr, ast.BoolOp):
        # short-circuit evaluation: an operand that is never reached need not be understood
        is_and = isinstance(expr.op, ast.And)
        for v in expr.values:
            r = _ev(v, recv, store, env, aliases, props)
            if r != is_and:
                return r
        return is_and
    if isinstance(expr, ast.IfExp):
        return _ev(expr.body if _ev(expr.test, recv, store, env, aliases, props) else expr.orelse, recv, store, env, aliases, props)
    if isinstance(expr, ast.Call) and isinstance(expr.func, ast.Name) and expr.func.id == "bool" and len(expr.args) == 1 and not expr.keywords:
        return _ev(expr.args[0], recv, store, env, aliases, props)
    if isinstance(expr, ast.Constant) and isinstance(expr.value, bool):
        return expr.value
    if isinstance(expr, ast.Name) and expr.id in env:
        return env[expr.id]
    if isinstance(expr, ast.Name) and expr.id in aliases:
        return True  # truthiness of a listener collection: a listener is registered
    if (isinstance(expr, ast.Compare) and len(expr.ops) == 1 and isinstance(expr.ops[0], (ast.IsNot, ast.Is))
            and isinstance(expr.left, ast.Name) and expr.left.id in aliases
            and isinstance(expr.comparators[0], ast.Constant) and expr.comparators[0].value is None):
        return isinstance(expr.ops[0], ast.IsNot)  # a listener is registered
    a = _atom(expr, recv)
    if a is not None:
        v = store[a[0]]
        return v if a[1] else not v
    if props is not None and isinstance(expr, ast.Attribute) and dotted(expr.value) == recv:
        r = props(expr.attr, store)
        if r is not None:
            return r
    raise _Unknown(unparse(expr))


def _run_body(body, recv, store, props=None):
    """Value returned by a side-effect free boolean function body (guard clauses, boolean locals, if/else, one or many
    returns) under the assignment `store`; _Unknown for anything else."""
    env: Dict[str, bool] = {}

    def block(stmts):
        for st in stmts:
            if isinstance(st, ast.Pass) or (isinstance(st, ast.Expr) and isinstance(st.value, ast.Constant)):
                continue
            if isinstance(st, ast.If):
                r = block(st.body if _ev(st.test, recv, store, env, (), props) else st.orelse)
                if r is not None:
                    return r
                continue
            if isinstance(st, ast.Return):
                if st.value is None:
                    raise _Unknown("bare return")
                return bool(_ev(st.value, recv, store, env, (), props))
            if isinstance(st, (ast.Assign, ast.AnnAssign)):
                tg = st.targets if isinstance(st, ast.Assign) else [st.target]
                if len(tg) == 1 and isinstance(tg[0], ast.Name) and st.value is not None:
                    try:
                        env[tg[0].id] = _ev(st.value, recv, store, env, (), props)
                    except _Unknown:
                        env.pop(tg[0].id, None)  # unknown only matters if it is read later
                    continue
            raise _Unknown(f"statement `{unparse(st).splitlines()[0]}`")
        return None

    r = block(body)
    if r is None:
        raise _Unknown("a path falls off the end without returning a value")
    return r


class _Pred:
    """One lifecycle predicate as a boolean function of the atoms (evaluated over all its return paths)."""

    def __init__(self, cls, f):
        self.cls, self.f = cls, f
        rets = [n for n in walk_local(f.node) if isinstance(n, ast.Return)]
        self.text = unparse(rets[0].value) if len(rets) == 1 and rets[0].value is not None else f"{len(rets)} return paths"

    def _props(self, depth):
        def props(name, store):
            g = self.cls.methods.get(name)
            # another property of the same class (an extracted sub-formula); the atoms themselves never get here
            if g is None or depth >= 3 or [p for p in g.params if p != "self"] or name in ("_attached",):
                return None
            return _run_body(g.node.body, "self", store, self._props(depth + 1))
        return props

    def __call__(self, store) -> bool:
        return _run_body(self.f.node.body, "self", store, self._props(0))


def _predicates(ctx):
    cls = ctx.index.cls(f"{STATE}::InstanceState")
    out = {}
    for p in PREDICATES:
        f = cls.methods.get(p)
        ctx.require(f is not None, f"InstanceState.{p} is not defined")
        ctx.functions_analysed.add(f.key)
        ctx.require(any(isinstance(n, ast.Return) and n.value is not None for n in walk_local(f.node)), f"InstanceState.{p} returns no value")
        out[p] = (f, _Pred(cls, f))
    return out


def _state_name(preds, K, A, D) -> List[str]:
    store = {"K": K, "A": A, "D": D}
    return [p for p, (f, e) in preds.items() if e(store)]


def _one(preds, K, A, D) -> str:
    names = _state_name(preds, K, A, D)
    return names[0] if len(names) == 1 else "<no-unique-state>"


def _post_ok(preds, declared, pre, fired, post) -> bool:
    """If an event `<pre>_to_<actual post-state>` is declared, it must be the one fired."""
    after = _one(preds, post["K"], post["A"], post["D"])
    exact = f"{pre}_to_{after}"
    return exact not in declared or fired == exact


def _label(K, A, D):
    return ",".join(["key=None" if K else "key", "attached" if A else "unattached", "_deleted" if D else "not-_deleted"])


@R.rule("C35-R1", floor=13, template="T-BOOL",
        desc="transient/pending/persistent/deleted/detached are boolean functions of (key is None, _attached, "
             "_deleted), evaluated over all return paths of their bodies (guard clauses, boolean locals, helper properties); "
             "for each of the 8 assignments exactly one predicate holds")
def r1(ctx):
    preds = _predicates(ctx)
    table = {}
    for p, (f, e) in preds.items():
        try:
            sat = [a for a in itertools.product([False, True], repeat=3) if e(dict(zip("KAD", a)))]
        except _Unknown as u:
            ctx.error(f"{f.key}: `{u}` is not a boolean function of the atoms key is None / _attached / _deleted")
        table[p] = sat
        ctx.check(bool(sat), f.key, f"predicate `{e.text}` is unsatisfiable", f"`{e.text}` holds for {len(sat)} assignment(s)", f.loc)
    for K, A, D in itertools.product([False, True], repeat=3):
        holds = _state_name(preds, K, A, D)
        ctx.check(len(holds) == 1, f"{STATE}::InstanceState:lifecycle[{_label(K, A, D)}]",
                  f"{len(holds)} lifecycle predicates hold for this assignment: {holds}", f"exactly one: {holds}")


# ---------------------------------------------------------------------- R2
def _declared_events(ctx):
    cls = ctx.index.cls(f"{EVENTS}::SessionEvents")
    out = {}
    for name, f in cls.methods.items():
        if LIFECYCLE_RE.match(name):
            out[name] = f
    return cls, out


def _is_dispatch_read(v) -> bool:
    return isinstance(v, ast.Attribute) and v.attr == "dispatch"


def _dispatch_names(fn) -> set:
    """Locals of fn that are only ever bound to `<x>.dispatch` (`dispatch = session.dispatch`)."""
    return read_aliases(fn, _is_dispatch_read)


def _is_dispatcher(e, dnames=()) -> bool:
    return _is_dispatch_read(e) or (isinstance(e, ast.Name) and e.id in dnames)


def _dispatch_attrs(tree):
    """[(event name, Attribute node)] for `<x>.dispatch.<event>` reads, also through a local bound to `<x>.dispatch`."""
    out = []
    for n in ast.walk(tree):
        if isinstance(n, ast.Attribute) and _is_dispatch_read(n.value):
            out.append((n.attr, n))
    for fn in ast.walk(tree):
        if isinstance(fn, (ast.FunctionDef, ast.AsyncFunctionDef)):
            dn = _dispatch_names(fn)
            if dn:
                for n in walk_local(fn):
                    if isinstance(n, ast.Attribute) and isinstance(n.value, ast.Name) and n.value.id in dn and isinstance(n.ctx, ast.Load):
                        out.append((n.attr, n))
    return out


SITE_MODULES = (SESSION, STATE, LOADING)


@R.rule("C35-R2", floor=19, template="T-EXHAUST",
        desc="every lifecycle event declared on SessionEvents is dispatched somewhere in orm/session.py, state.py "
             "or loading.py, and every `.dispatch.<state>_to_<state>` site names a declared event")
def r2(ctx):
    cls, declared = _declared_events(ctx)
    # floor: 10 declared events + 10 dispatched names today; it is set one lower so that ONE vanished event /
    # dispatch is reported as a violation (below) rather than as blindness
    ctx.require(len(declared) >= 8, f"only {len(declared)} lifecycle events found on SessionEvents")
    sites: Dict[str, List[str]] = {}
    for rel in SITE_MODULES:
        m = ctx.index.module(rel)
        for name, node in _dispatch_attrs(m.tree):
            if LIFECYCLE_RE.match(name):
                sites.setdefault(name, []).append(f"{m.path}:{node.lineno}")
    for name, f in sorted(declared.items()):
        decorated = any(d.rsplit(".", 1)[-1] == "_lifecycle_event" for d in f.decorators)
        ctx.check(name in sites and decorated, f"{EVENTS}::SessionEvents.{name}",
                  f"lifecycle event {name} " + ("has no dispatch site" if name not in sites else "is not registered with @_lifecycle_event"),
                  f"dispatched at {len(sites.get(name, []))} site(s)", f.loc)
    for name, locs in sorted(sites.items()):
        ctx.check(name in declared, f"dispatch:{name}", f"dispatch site(s) {locs} name the undeclared lifecycle event `{name}`",
                  f"{len(locs)} site(s) name a declared event", locs[0])


# ---------------------------------------------------------------------- R3
# attribute of an InstanceState -> lifecycle atom whose truth it carries (an object while attached, None otherwise); that
# `session` is looked up from `session_id` is confirmed on the tree by C35-R5 (`_attached_objects_confirmed`)
ATTACHED_OBJECTS = {"session_id": "A", "session": "A"}


def _attached_objects_confirmed(ctx):
    """InstanceState.session yields an object only under `self.session_id` (every `return <not None>` is dominated by that
    test): an unattached state has no session, so `state.session` / `_state_session(state)` is falsy for it."""
    from ..astutil import test_atoms
    cls = ctx.index.cls(f"{STATE}::InstanceState")
    f = cls.methods.get("session")
    ctx.require(f is not None and any(d.rsplit(".", 1)[-1] == "property" for d in f.decorators), "InstanceState.session is not a property")
    ctx.functions_analysed.add(f.key)
    g = ctx.cfg(f)
    rets = [n for n in g.nodes if n.kind == "stmt" and isinstance(n.stmt, ast.Return)]
    objs = [n for n in rets if not (n.stmt.value is None or (isinstance(n.stmt.value, ast.Constant) and n.stmt.value.value is None))]
    ctx.require(objs and len(objs) < len(rets), "InstanceState.session does not return a session on some path and None on another")
    for n in objs:
        atoms = {a for t, pol in g.edge_guards(n.id) for a in test_atoms(t, pol)}
        ctx.require(("self.session_id", True) in atoms or ("self.session_id is None", False) in atoms,
                    f"InstanceState.session returns `{unparse(n.stmt.value)}` without testing self.session_id")


class _Sim:
    """Sequential interpretation of one dispatch function over the lifecycle atoms of one receiver."""

    def __init__(self, ctx, fkey, recv, aliases, params, dnames=()):
        self.ctx = ctx
        self.fkey = fkey
        self.recv = recv
        self.aliases = aliases  # local name -> event name
        self.params = params
        self.dnames = set(dnames)  # locals bound to `<x>.dispatch`
        # attributes of the receiver that hold an object exactly while it is attached (`state.session_id`, and the session
        # looked up from it, `state.session`): their truthiness / `is not None` is the atom "attached"
        self.optional = dict(ATTACHED_OBJECTS)

    def run(self, body, store, env):
        self.store = dict(store)
        self.env = dict(env)
        self.optnames = set()  # locals bound to such an attribute (`s = state.session`): `s is not None` == truthiness
        self.fired: List[str] = []
        self._block(body)
        return self.fired, self.store

    def _props(self, name, store):
        return store[self.optional[name]] if name in self.optional else None

    def _is_optional(self, e) -> bool:
        return (isinstance(e, ast.Name) and e.id in self.optnames) or (isinstance(e, ast.Attribute) and dotted(e.value) == self.recv and e.attr in self.optional)

    def _norm(self, expr):
        """`<optional object> is not None` -> `<optional object>`, `... is None` -> `not ...`."""
        sim = self

        class T(ast.NodeTransformer):
            def visit_Compare(self, n):
                self.generic_visit(n)
                if (len(n.ops) == 1 and isinstance(n.ops[0], (ast.Is, ast.IsNot)) and isinstance(n.comparators[0], ast.Constant)
                        and n.comparators[0].value is None and sim._is_optional(n.left)):
                    return n.left if isinstance(n.ops[0], ast.IsNot) else ast.UnaryOp(op=ast.Not(), operand=n.left)
                return n

        if not any(isinstance(n, ast.Compare) for n in ast.walk(expr)):
            return expr
        import copy
        return ast.fix_missing_locations(T().visit(copy.deepcopy(expr)))

    def _relevant(self, st) -> bool:
        for n in ast.walk(st):
            if isinstance(n, ast.Attribute) and isinstance(n.ctx, (ast.Store, ast.Del)) and dotted(n.value) == self.recv and n.attr in ("key", "session_id", "_deleted"):
                return True
            if isinstance(n, ast.Call):
                if isinstance(n.func, ast.Name) and n.func.id in self.aliases:
                    return True
                if isinstance(n.func, ast.Attribute) and LIFECYCLE_RE.match(n.func.attr) and _is_dispatcher(n.func.value, self.dnames):
                    return True
        return False

    def _block(self, body) -> bool:
        """True when the pass ended (continue / return / break / raise) inside `body`."""
        for st in body:
            if isinstance(st, (ast.Continue, ast.Return, ast.Break, ast.Raise)):
                return True
            if isinstance(st, ast.If):
                try:
                    t = _ev(self._norm(st.test), self.recv, self.store, self.env, self.aliases, self._props)
                except _Unknown as u:
                    ends = any(isinstance(x, (ast.Continue, ast.Return, ast.Break)) for x in ast.walk(st))
                    self.ctx.require(not self._relevant(st) and not ends, f"{self.fkey}: cannot evaluate `{u}` guarding a lifecycle dispatch / state write")
                    continue
                if self._block(st.body if t else st.orelse):
                    return True
                continue
            if isinstance(st, ast.Assign) and len(st.targets) == 1 and isinstance(st.targets[0], ast.Name):
                try:
                    self.env[st.targets[0].id] = _ev(self._norm(st.value), self.recv, self.store, self.env, self.aliases, self._props)
                    if self._is_optional(st.value):
                        self.optnames.add(st.targets[0].id)
                    else:
                        self.optnames.discard(st.targets[0].id)
                except _Unknown:
                    self.env.pop(st.targets[0].id, None)
                    self.optnames.discard(st.targets[0].id)
                continue
            if isinstance(st, (ast.Assign, ast.Delete)):
                for t in st.targets:
                    if isinstance(t, ast.Attribute) and dotted(t.value) == self.recv:
                        if t.attr == "session_id":
                            self.store["A"] = not (isinstance(st, ast.Delete) or (isinstance(st.value, ast.Constant) and st.value.value is None))
                        elif t.attr == "key":
                            self.store["K"] = isinstance(st, ast.Delete) or (isinstance(st.value, ast.Constant) and st.value.value is None)
                        elif t.attr == "_deleted":
                            self.store["D"] = (not isinstance(st, ast.Delete)) and isinstance(st.value, ast.Constant) and st.value.value is True
                continue
            if isinstance(st, ast.Expr) and isinstance(st.value, ast.Call):
                fn = st.value.func
                if isinstance(fn, ast.Name) and fn.id in self.aliases:
                    self.fired.append(self.aliases[fn.id])
                elif isinstance(fn, ast.Attribute) and _is_dispatcher(fn.value, self.dnames) and LIFECYCLE_RE.match(fn.attr):
                    self.fired.append(fn.attr)
                continue
            if isinstance(st, (ast.For, ast.While, ast.Try, ast.With)):
                self.ctx.require(not self._relevant(st), f"{self.fkey}: lifecycle dispatch inside a nested `{type(st).__name__}` is not modelled")
        return False


def _event_aliases(fn) -> Dict[str, str]:
    """`x = <...>.dispatch.<event> or None` / `x = <...>.dispatch.<event>` -> {x: event} (the dispatcher may be a local
    bound to `<...>.dispatch`)."""
    out = {}
    dn = _dispatch_names(fn)
    for st in walk_stmts(fn.body):
        if isinstance(st, ast.Assign) and len(st.targets) == 1 and isinstance(st.targets[0], ast.Name):
            v = st.value
            if isinstance(v, ast.BoolOp) and isinstance(v.op, ast.Or) and len(v.values) == 2 and isinstance(v.values[1], ast.Constant) and v.values[1].value is None:
                v = v.values[0]
            if isinstance(v, ast.IfExp) and isinstance(v.orelse, ast.Constant) and v.orelse.value is None:
                v = v.body  # `d.<event> if d.<event> else None`
            if isinstance(v, ast.Attribute) and _is_dispatcher(v.value, dn) and LIFECYCLE_RE.match(v.attr):
                out[st.targets[0].id] = v.attr
    return out


def _key_removals_without_deleted_reset(ctx):
    """Sites that remove a state's key (del x.key / x.key = None) in a function that never clears x._deleted."""
    bad = []
    for rel in (SESSION, STATE, LOADING, "orm/identity.py", "orm/persistence.py", "orm/unitofwork.py"):
        m = ctx.index.module(rel)
        for fn in ast.walk(m.tree):
            if not isinstance(fn, (ast.FunctionDef, ast.AsyncFunctionDef)):
                continue
            removed, cleared = {}, set()
            for st in walk_stmts(fn.body):
                tg = st.targets if isinstance(st, (ast.Assign, ast.Delete)) else []
                for t in tg:
                    if not isinstance(t, ast.Attribute):
                        continue
                    recv = dotted(t.value)
                    if recv is None or recv == "self":
                        continue
                    gone = isinstance(st, ast.Delete) or (isinstance(st.value, ast.Constant) and st.value.value in (None, False))
                    if t.attr == "key" and gone:
                        removed[recv] = f"{m.path}:{st.lineno} ({fn.name})"
                    if t.attr == "_deleted" and gone:
                        cleared.add(recv)
            for recv, where in removed.items():
                if recv not in cleared:
                    bad.append(where)
    return bad


def _nested_def(fn_node, name):
    for n in ast.walk(fn_node):
        if isinstance(n, (ast.FunctionDef, ast.AsyncFunctionDef)) and n.name == name and n is not fn_node:
            return n
    return None


@R.rule("C35-R3", floor=16, template="T-GUARD/T-BOOL",
        desc="each lifecycle dispatch site fires the event whose name matches the pre-state given by the R1 "
             "formulas, and is control-dependent on the state change it announces")
def r3(ctx):
    preds = _predicates(ctx)
    declared = set(_declared_events(ctx)[1])
    # ---- (a) attach: Session._after_attach
    f = ctx.func(f"{SESSION}::Session._after_attach")
    ctx.require(len(f.params) >= 2, "_after_attach has no state parameter")
    recv = f.params[1]
    sim = _Sim(ctx, f.key, recv, _event_aliases(f.node), f.params, _dispatch_names(f.node))
    for K, D in itertools.product([False, True], repeat=2):
        fired, post = sim.run(f.node.body, {"K": K, "A": False, "D": D}, {})
        pre = _one(preds, K, False, D)
        key = f"{f.key}:[{_label(K, False, D)}]"
        good = len(fired) == 1 and fired[0].startswith(pre + "_to_") and post["A"] is True and _post_ok(preds, declared, pre, fired[0], post)
        ctx.check(good, key, f"attaching a {pre} object fires {fired} (expected exactly one `{pre}_to_<new state>` event after session_id is set)",
                  f"{pre} -> fires {fired[0] if fired else None}", f.loc)
    # ---- (b) detach: InstanceState._detach_states, the four-way choice
    f = ctx.func(f"{STATE}::InstanceState._detach_states")
    loops = [n for n in f.node.body if isinstance(n, ast.For) and isinstance(n.target, ast.Name)]
    ctx.require(len(loops) == 1, "_detach_states does not consist of one loop over the states")
    lp = loops[0]
    recv = lp.target.id
    aliases = _event_aliases(f.node)
    ctx.require(len(aliases) >= 4, f"_detach_states binds only {len(aliases)} lifecycle events")
    flag = [p for p in f.params if p == "to_transient"]
    ctx.require(flag, "_detach_states has no to_transient parameter")
    unreset = _key_removals_without_deleted_reset(ctx)
    sim = _Sim(ctx, f.key, recv, aliases, f.params, _dispatch_names(f.node))
    for T, K, D in itertools.product([False, True], repeat=3):
        key = f"{f.key}:[{'to_transient' if T else 'detach'},{'key=None' if K else 'key'},{'_deleted' if D else 'not-_deleted'}]"
        if K and D and not unreset:
            ctx.ok(key, "unreachable: every removal of a state's key also clears _deleted, and _deleted is only set on flushed (keyed) states")
            continue
        fired, post = sim.run(lp.body, {"K": K, "A": True, "D": D}, {"to_transient": T})
        pre = _one(preds, K, True, D)
        good = len(fired) == 1 and fired[0].startswith(pre + "_to_") and post["A"] is False and _post_ok(preds, declared, pre, fired[0], post)
        why = ""
        if K and D:
            why = f" (key=None with _deleted=True is producible: {unreset} remove the key without clearing _deleted)"
        ctx.check(good, key, f"detaching a {pre} object fires {fired}; expected exactly the `{pre}_to_<new state>` event{why}",
                  f"{pre} -> fires {fired[0] if fired else None}", f.loc)
        if good:
            after = _one(preds, post["K"], post["A"], post["D"])
            if not fired[0].endswith("_to_" + after):
                ctx.note(f"{key}: event {fired[0]} is fired although the object ends up {after} (no `{pre}_to_{after}` event exists)")
    # ---- (c) flush: pending_to_persistent only for states taken from the session's _new collection
    f = ctx.func(f"{SESSION}::Session._register_persistent")
    aliases = _event_aliases(f.node)
    pm = f.module.parents()
    sites = [c for c in calls_in(f.node) if (isinstance(c.func, ast.Name) and aliases.get(c.func.id) == "pending_to_persistent")
             or (isinstance(c.func, ast.Attribute) and c.func.attr == "pending_to_persistent")]
    ctx.require(sites, "_register_persistent has no pending_to_persistent dispatch")
    binds = single_binds(f.node)
    gp = ctx.cfg(f)
    from ._helpers_rules_d import call_nodes as _call_nodes
    for i, c in enumerate(sites):
        cur, loop = c, None
        while cur is not None and cur is not f.node:
            cur = pm.get(cur)
            if isinstance(cur, ast.For):
                loop = cur
                break
        it = expand(loop.iter, binds) if loop is not None else None  # `pending = states.intersection(self._new); for state in pending`
        while isinstance(it, ast.Call) and isinstance(it.func, ast.Name) and it.func.id in ("set", "list", "tuple", "frozenset", "sorted") and len(it.args) == 1:
            it = it.args[0]
        subject = unparse(c.args[1]) if len(c.args) == 2 else None
        by_iter = (isinstance(it, ast.Call) and isinstance(it.func, ast.Attribute) and it.func.attr == "intersection"
                   and len(it.args) == 1 and dotted(it.args[0]) == "self._new"
                   and isinstance(loop.target, ast.Name) and subject == loop.target.id)
        # or: the dispatch is control-dependent on `<state> in self._new`
        by_guard = subject is not None and any((f"{subject} in self._new", True) in resolved_atom_set(gp, f.node, n) for n in _call_nodes(gp, lambda x: x is c))
        good = by_iter or by_guard
        ctx.check(good, f"{f.key}:pending_to_persistent" + (f":{i}" if i else ""),
                  "pending_to_persistent is not restricted to the flushed states that are in self._new (the pending ones)",
                  "for state in states.intersection(self._new)", f.loc)
    # ---- (d) flush: persistent_to_deleted is announced after the state is marked deleted
    f = ctx.func(f"{SESSION}::Session._remove_newly_deleted")
    g = ctx.cfg(f)
    aliases = _event_aliases(f.node)
    marks = g.find(lambda n: n.kind == "stmt" and isinstance(n.stmt, ast.Assign) and any(isinstance(t, ast.Attribute) and t.attr == "_deleted" for t in n.stmt.targets)
                   and isinstance(n.stmt.value, ast.Constant) and n.stmt.value.value is True)
    fires = g.find(lambda n: n.kind == "stmt" and isinstance(n.stmt, ast.Expr) and isinstance(n.stmt.value, ast.Call)
                   and ((isinstance(n.stmt.value.func, ast.Name) and aliases.get(n.stmt.value.func.id) == "persistent_to_deleted")
                        or (isinstance(n.stmt.value.func, ast.Attribute) and n.stmt.value.func.attr == "persistent_to_deleted")))
    ctx.require(fires, "_remove_newly_deleted has no persistent_to_deleted dispatch")
    for n in fires:
        w = g.always_preceded(n, marks)
        ctx.check(w is None and bool(marks), f"{f.key}:persistent_to_deleted", "persistent_to_deleted is fired on a path that has not set state._deleted = True",
                  "dominated by state._deleted = True", f.loc, w)
    # ---- (e) rollback: deleted_to_persistent only when a deletion is actually reverted
    f = ctx.func(f"{SESSION}::Session._update_impl")
    g = ctx.cfg(f)
    recv = f.params[1]
    aliases = _event_aliases(f.node)
    fires = g.find(lambda n: n.kind == "stmt" and isinstance(n.stmt, ast.Expr) and isinstance(n.stmt.value, ast.Call)
                   and ((isinstance(n.stmt.value.func, ast.Attribute) and n.stmt.value.func.attr == "deleted_to_persistent")
                        or (isinstance(n.stmt.value.func, ast.Name) and aliases.get(n.stmt.value.func.id) == "deleted_to_persistent")))
    ctx.require(fires, "_update_impl has no deleted_to_persistent dispatch")
    undeletes = g.find(lambda n: n.kind == "stmt" and ((isinstance(n.stmt, ast.Delete) and any(dotted(t) == f"{recv}._deleted" for t in n.stmt.targets))
                                                     or (isinstance(n.stmt, ast.Assign) and any(dotted(t) == f"{recv}._deleted" for t in n.stmt.targets)
                                                         and isinstance(n.stmt.value, ast.Constant) and n.stmt.value.value is False)))
    # locals that remember the pre-state `_deleted`
    # (a local bound AFTER the flag was cleared remembers nothing: it is always False and the event would never fire)
    remembered = set()
    for st in walk_stmts(f.node.body):
        if isinstance(st, ast.Assign) and len(st.targets) == 1 and isinstance(st.targets[0], ast.Name) and dotted(st.value) == f"{recv}._deleted":
            if g.witness(undeletes, g.nodes_for(st)) is None:
                remembered.add(st.targets[0].id)
    for n in fires:
        atoms = resolved_atom_set(g, f.node, n, binds={k: v for k, v in bool_binds(f.node).items() if k not in remembered})
        w = g.always_preceded(n, undeletes)
        direct = {f"{recv}._deleted"} if g.witness(undeletes, [n]) is None else set()
        by_flag = any((a, True) in atoms for a in remembered | direct)
        cond_revert = ("revert_deletion", True) in atoms
        ctx.check((w is None and bool(undeletes) or by_flag) and cond_revert, f"{f.key}:deleted_to_persistent",
                  "deleted_to_persistent is fired on a path where no deletion was reverted (state._deleted was not set / not cleared): "
                  "an object merely marked for deletion, never flushed, is still persistent",
                  "fired only after `del state._deleted` under revert_deletion", f.loc, w)
    # ---- (f) load: loaded_as_persistent only for an instance created by this load
    outer = ctx.func(f"{LOADING}::_instance_processor")
    inst = _nested_def(outer.node, "_instance")
    ctx.require(inst is not None, "_instance_processor has no nested _instance function")
    aliases = _event_aliases(outer.node)
    g = ctx.cfg(inst)
    fires = g.find(lambda n: n.kind == "stmt" and isinstance(n.stmt, ast.Expr) and isinstance(n.stmt.value, ast.Call)
                   and ((isinstance(n.stmt.value.func, ast.Name) and aliases.get(n.stmt.value.func.id) == "loaded_as_persistent")
                        or (isinstance(n.stmt.value.func, ast.Attribute) and n.stmt.value.func.attr == "loaded_as_persistent")))
    ctx.require(fires, "_instance has no loaded_as_persistent dispatch")
    # the flag local(s) that are True exactly on the branch that constructs a new instance
    true_sets: Dict[str, List[ast.stmt]] = {}
    false_sets: Dict[str, int] = {}
    for st in walk_stmts(inst.body):
        if isinstance(st, ast.Assign) and len(st.targets) == 1 and isinstance(st.targets[0], ast.Name) and isinstance(st.value, ast.Constant) and isinstance(st.value.value, bool):
            (true_sets.setdefault(st.targets[0].id, []).append(st) if st.value.value else false_sets.__setitem__(st.targets[0].id, false_sets.get(st.targets[0].id, 0) + 1))
    pm = outer.module.parents()
    from ..astutil import block_of, test_atoms
    new_flags = set()
    for nm, sts in true_sets.items():
        ok_all = True
        for st in sts:
            par, fld, blk = block_of(pm, st)
            creates = blk is not None and any(any((call_name(c) or "").endswith(".new_instance") for c in calls_in(s)) for s in blk if not isinstance(s, (ast.If, ast.For, ast.While, ast.Try, ast.With)))
            ok_all = ok_all and creates
        if ok_all and nm in false_sets:
            new_flags.add(nm)
    for n in fires:
        atoms = resolved_atom_set(g, inst, n, binds={k: v for k, v in bool_binds(inst).items() if k not in new_flags})
        good = any((nm, True) in atoms for nm in new_flags)
        ctx.check(good, f"{outer.key}._instance:loaded_as_persistent",
                  f"loaded_as_persistent is not control-dependent on a flag set only where a new instance is constructed (flags: {sorted(new_flags)}; guards: {sorted(atoms)})",
                  f"guarded by {sorted(new_flags)} (True only beside new_instance())", f"{outer.module.path}:{g.node(n).lineno}")


# ---------------------------------------------------------------------- R4
OWNERS = {
    # attribute -> {function: reason}
    "key": {
        f"{SESSION}::SessionTransaction._restore_snapshot": "rollback restores the key of a primary-key switch",
        f"{SESSION}::Session._register_persistent": "flush assigns / switches the identity key",
        f"{SESSION}::Session._merge": "merge(load=False) manufactures a persistent copy",
        f"{SESSION}::make_transient": "documented API: erase identity",
        f"{SESSION}::make_transient_to_detached": "documented API: manufacture identity",
        f"{STATE}::InstanceState._detach_states": "expunge to transient on rollback of a pending object",
        f"{LOADING}::_instance_processor._instance": "a new instance loaded from a row",
        "orm/persistence.py::_finalize_insert_update_commands": "temporary key to refresh server-generated columns inside flush",
        "orm/bulk_persistence.py::_bulk_insert": "bulk_save_objects(return_defaults=True)",
    },
    "session_id": {
        f"{SESSION}::Session._after_attach": "attach",
        f"{STATE}::InstanceState._detach_states": "detach",
        f"{STATE}::InstanceState._detach": "detach without a session",
        f"{STATE}::InstanceState._cleanup": "weakref callback: the object was garbage collected",
        f"{LOADING}::_instance_processor._instance": "a new instance loaded from a row",
    },
    "_deleted": {
        f"{SESSION}::Session._remove_newly_deleted": "flush of a DELETE",
        f"{SESSION}::Session._update_impl": "rollback reverts a deletion",
        f"{SESSION}::make_transient": "documented API",
        f"{SESSION}::make_transient_to_detached": "documented API",
        f"{STATE}::InstanceState._detach_states": "(no such write today) clearing the flag together with the key when a rolled-back new "
                                                  "object becomes transient is the proposed repair of the C35-R3 finding",
    },
}
# modules where `.key = ` stores with a non-self receiver are stores on schema/attribute objects, not on states
NON_STATE_KEY_MODULES = {
    "orm/decl_base.py": "Column.key during declarative scan",
    "orm/properties.py": "Column.key during declarative scan",
    "orm/mapper.py": "Column.key / MapperProperty.key during configuration",
    "orm/decl_api.py": "declarative attribute keys",
    "orm/clsregistry.py": "registry entries",
}


def _qual(pm, node) -> str:
    parts = []
    cur = pm.get(node)
    while cur is not None:
        if isinstance(cur, (ast.FunctionDef, ast.AsyncFunctionDef, ast.ClassDef)):
            parts.append(cur.name)
        cur = pm.get(cur)
    return ".".join(reversed(parts))


@R.rule("C35-R4", floor=18, template="T-OWN",
        desc="InstanceState.key / session_id / _deleted are written only by the enumerated owner functions (or by a private "
             "helper every use of which is a call from such an owner)")
def r4(ctx):
    found: Dict[Tuple[str, str], str] = {}
    for m in ctx.index.all_modules():
        if not m.relpath.startswith("orm/"):
            continue
        if not any(a in m.source for a in (".key", "session_id", "_deleted")):
            continue
        pm = None
        for n in ast.walk(m.tree):
            if not (isinstance(n, ast.Attribute) and isinstance(n.ctx, (ast.Store, ast.Del)) and n.attr in OWNERS):
                continue
            recv = dotted(n.value)
            if n.attr == "key":
                if recv == "self" or m.relpath in NON_STATE_KEY_MODULES:
                    continue
            if pm is None:
                pm = m.parents()
            if n.attr == "_deleted":
                # the Session / SessionTransaction bookkeeping dicts share the name: skip non-boolean stores on self
                st = pm.get(n)
                while st is not None and not isinstance(st, ast.stmt):
                    st = pm.get(st)
                if isinstance(st, (ast.Assign, ast.AnnAssign)) and recv == "self" and not (isinstance(st.value, ast.Constant) and isinstance(st.value.value, bool)):
                    continue
            q = _qual(pm, n)
            found[(n.attr, f"{m.relpath}::{q}")] = f"{m.path}:{n.lineno}"
    for (attr, fk), loc in sorted(found.items()):
        reason = OWNERS[attr].get(fk)
        if reason is None:
            # a private helper every use of which is a call from an enumerated owner writes on the owner's behalf
            reason = transitive_owner(ctx, fk, OWNERS[attr])
        ctx.check(reason is not None, f"{fk}:writes:{attr}",
                  f"`{attr}` of an instance state is written outside the enumerated lifecycle owners", reason or "", loc)
    for attr, owners in OWNERS.items():
        ctx.require(any(a == attr for a, _ in found), f"no writer of `{attr}` found at all")


# ---------------------------------------------------------------------- R5
def _key_receiver(fn) -> Optional[str]:
    """The local whose `.key` the function assigns / deletes (the instance state it works on)."""
    for st in walk_stmts(fn.body):
        tg = st.targets if isinstance(st, (ast.Assign, ast.Delete)) else []
        for t in tg:
            if isinstance(t, ast.Attribute) and t.attr == "key" and isinstance(t.value, ast.Name) and t.value.id != "self":
                return t.value.id
    return None


def _writes_lifecycle_attr(callee) -> bool:
    return any(isinstance(n, ast.Attribute) and isinstance(n.ctx, (ast.Store, ast.Del)) and n.attr in ("key", "session_id", "_deleted") and isinstance(n.value, ast.Name)
               for n in ast.walk(callee.node))


def _kd(K, D):
    return f"{'key=None' if K else 'key'},{'_deleted' if D else 'not-_deleted'}"


@R.rule("C35-R5", floor=11, template="T-BOOL",
        desc="the exits of the session re-establish ALL lifecycle atoms: run symbolically over (key is None, attached, "
             "_deleted), InstanceState._detach_states leaves session_id cleared, the key cleared exactly when "
             "to_transient, and never `_deleted` on a key-less (transient) state; make_transient ends with neither key "
             "nor _deleted, make_transient_to_detached with a key and without _deleted -- `_deleted` only ever "
             "accompanies an identity key")
def r5(ctx):
    # (a) the detach family
    f = ctx.func(f"{STATE}::InstanceState._detach_states")
    loops = [n for n in f.node.body if isinstance(n, ast.For) and isinstance(n.target, ast.Name)]
    ctx.require(len(loops) == 1 and "to_transient" in f.params, "_detach_states is not one loop over the states with a to_transient flag")
    lp = loops[0]
    sim = _Sim(ctx, f.key, lp.target.id, _event_aliases(f.node), f.params, _dispatch_names(f.node))
    for T, K, D in itertools.product([False, True], repeat=3):
        if K and D:
            continue  # not a state an object can be in: the invariant checked here excludes it
        fired, post = sim.run(lp.body, {"K": K, "A": True, "D": D}, {"to_transient": T})
        bad = []
        if post["A"]:
            bad.append("session_id is not cleared")
        if post["K"] != (K or T):
            bad.append("the identity key is " + ("kept although the object is sent back to transient" if T else "removed although the object is only detached"))
        if post["K"] and post["D"]:
            bad.append("the object ends up transient (no key, no session) with `_deleted` still set: was_deleted stays True, and after the next add() + flush "
                       "inspect(obj).deleted is True for a persistent object (Session.add refuses it as 'has been deleted')")
        ctx.check(not bad, f"{f.key}:post[{'to_transient' if T else 'detach'},{_kd(K, D)}]", "; ".join(bad),
                  f"-> {_kd(post['K'], post['D'])}, unattached", f.loc)
    # (b) the documented API functions
    _attached_objects_confirmed(ctx)
    preds = _predicates(ctx)
    from ._helpers_rob_g1 import normal_form
    for name, want_key in (("make_transient", False), ("make_transient_to_detached", True)):
        f0 = ctx.func(f"{SESSION}::{name}")
        # helpers of the module that write lifecycle attributes of a state handed to them are inlined; single-expression
        # accessors (`_state_session(state)` == `state.session`) are expanded inside expressions
        f = normal_form(ctx, f0, depth=2, aliases=False, want=_writes_lifecycle_attr)
        recv = _key_receiver(f.node)
        ctx.require(recv is not None, f"{name} does not write the key of a state")
        sim = _Sim(ctx, f.key, recv, {}, f.params)
        pres = [(K, D) for K in ((True,) if want_key else (False, True)) for D in (False, True) if want_key or not (K and D)]
        for K, D in pres:
            fired, post = sim.run(f.node.body, {"K": K, "A": False, "D": D}, {})
            bad = []
            if post["K"] == want_key:
                bad.append("the object still has an identity key" if not want_key else "the object gets no identity key")
            if post["D"]:
                bad.append("`_deleted` stays set" + ("" if want_key else " on an object without identity key (it then reports `deleted` instead of `persistent` "
                                                                     "once it is added and flushed again, and Session.add refuses it as 'has been deleted')"))
            pre = _one(preds, K, False, D)
            ctx.check(not bad, f"{f.key}:post[{_kd(K, D)}]", f"{name}() of a {pre} object ({_kd(K, D)}, no session): " + "; ".join(bad), f"-> {_kd(post['K'], post['D'])}", f.loc)


# ---------------------------------------------------------------------- R6
REMOVERS = ("pop", "safe_discard", "discard", "_fast_discard", "remove")


def _home_resolver(fn):
    """expr -> ('session' | 'tx', attribute) when `expr` is a collection attribute of the Session (`self.X`) or of one of its
    transactions (`self._transaction.X`, a local bound to `self._transaction`, a loop variable over
    `<transaction>._iterate_self_and_parents()`); None otherwise."""
    from ..astutil import name_stores
    tx_names = set()
    for _ in range(2):
        for n, v, st in name_stores(fn):
            if v is not None and isinstance(v, ast.Attribute) and v.attr == "_transaction" and dotted(v.value) == "self":
                tx_names.add(n)
        for lp in [x for x in walk_local(fn) if isinstance(x, ast.For) and isinstance(x.target, ast.Name)]:
            it = lp.iter
            if isinstance(it, ast.Call) and isinstance(it.func, ast.Attribute) and it.func.attr == "_iterate_self_and_parents":
                r = it.func.value
                if dotted(r) == "self._transaction" or (isinstance(r, ast.Name) and r.id in tx_names):
                    tx_names.add(lp.target.id)

    def home(e):
        if not isinstance(e, ast.Attribute):
            return None
        b = e.value
        if dotted(b) == "self":
            return ("session", e.attr)
        if dotted(b) == "self._transaction" or (isinstance(b, ast.Name) and b.id in tx_names):
            return ("tx", e.attr)
        return None

    return home


def _home_text(h):
    return ("self." if h[0] == "session" else "self._transaction.") + h[1]


@R.rule("C35-R6", floor=4, template="T-SIBLING",
        desc="Session.expunge_all() is expunge(obj) for every object of the session: each collection from which the one-object form "
             "(Session._expunge_states) removes the state it detaches -- the places an attached state can live: pending in _new, in the "
             "identity map (with its delete mark), or, flushed as deleted, only in the current transaction's _deleted -- is collected into what "
             "expunge_all hands to InstanceState._detach_states (before it is reset), or, for a collection whose members are members of another "
             "one, at least reset; otherwise those objects stay attached (session_id set, state 'deleted') to a session that was closed")
def r6(ctx):
    from ..astutil import name_stores
    from ._helpers_rules_d import call_nodes
    one = ctx.func(f"{SESSION}::Session._expunge_states")
    ctx.functions_analysed.add(one.key)
    loops = [n for n in one.node.body if isinstance(n, ast.For) and isinstance(n.target, ast.Name) and isinstance(n.iter, ast.Name) and n.iter.id in one.params]
    ctx.require(len(loops) == 1, "_expunge_states is not one loop over the states handed to it")
    lp = loops[0]
    v = lp.target.id
    home1 = _home_resolver(one.node)
    sb1 = single_binds(one.node)
    g1 = ctx.cfg(one)
    ctx.require(any(isinstance(c.func, ast.Attribute) and c.func.attr == "_detach_states" for c in calls_in(one.node)), "_expunge_states does not detach the states")

    def is_v(e):
        return isinstance(e, ast.Name) and e.id == v

    from ..astutil import own_exprs, test_atoms
    bb1 = bool_binds(one.node)
    homes: Dict[Tuple[str, str], bool] = {}  # home -> primary?
    for n in g1.nodes:
        if n.kind != "stmt" or not isinstance(n.stmt, ast.stmt):
            continue
        found = []
        if isinstance(n.stmt, ast.Delete):
            found += [t.value for t in n.stmt.targets if isinstance(t, ast.Subscript) and is_v(t.slice)]
        for c in [c for e in own_exprs(n.stmt) for c in calls_in(e)]:
            if isinstance(c.func, ast.Attribute) and c.func.attr in REMOVERS and c.args and is_v(c.args[0]):
                found.append(c.func.value)
        for coll in found:
            h = home1(expand(coll, sb1)) or home1(coll)
            ctx.require(h is not None, f"_expunge_states removes the state from `{unparse(coll)}`, which is neither an attribute of the session nor of its transaction")
            # membership outcomes that dominate the removal: a positive one on ANOTHER home makes this a collection of members of that home
            secondary = False
            for t, pol in g1.edge_guards(n.id):
                for atom, apol in test_atoms(expand(t, bb1), pol):
                    try:
                        a = ast.parse(atom, mode="eval").body
                    except SyntaxError:
                        continue
                    other = None
                    if isinstance(a, ast.Compare) and len(a.ops) == 1 and isinstance(a.ops[0], ast.In) and is_v(a.left):
                        other = home1(expand(a.comparators[0], sb1))
                    elif isinstance(a, ast.Call) and isinstance(a.func, ast.Attribute) and a.func.attr in ("contains_state", "__contains__") and a.args and is_v(a.args[0]):
                        other = home1(expand(a.func.value, sb1))
                    if other is not None and other != h and apol:
                        secondary = True
            homes[h] = homes.get(h, True) and not secondary
    ctx.require(len(homes) >= 3, f"_expunge_states removes a state only from {sorted(_home_text(h) for h in homes)}")

    f = ctx.func(f"{SESSION}::Session.expunge_all")
    ctx.functions_analysed.add(f.key)
    g = ctx.cfg(f)
    pm = f.module.parents()
    home = _home_resolver(f.node)
    det = call_nodes(g, lambda c: isinstance(c.func, ast.Attribute) and c.func.attr == "_detach_states" and c.args)
    ctx.require(det, "expunge_all does not call _detach_states")
    # everything that flows into the collection handed to _detach_states: (expression, CFG node of the statement that reads it)
    flows: List[Tuple[ast.expr, int]] = []
    seen = set()

    def add(e, nid, depth=0):
        flows.append((e, nid))
        if depth >= 3:
            return
        for nm in {x.id for x in ast.walk(e) if isinstance(x, ast.Name) and isinstance(x.ctx, ast.Load)} - seen:
            seen.add(nm)
            for x in g.nodes:
                st = x.stmt
                if x.kind != "stmt" or not isinstance(st, ast.stmt):
                    continue
                if isinstance(st, (ast.Assign, ast.AnnAssign)) and st.value is not None and any(isinstance(t, ast.Name) and t.id == nm for t in (st.targets if isinstance(st, ast.Assign) else [st.target])):
                    add(st.value, x.id, depth + 1)
                elif isinstance(st, ast.AugAssign) and isinstance(st.target, ast.Name) and st.target.id == nm:
                    add(st.value, x.id, depth + 1)
                elif isinstance(st, ast.Expr) and isinstance(st.value, ast.Call) and isinstance(st.value.func, ast.Attribute) and isinstance(st.value.func.value, ast.Name) \
                        and st.value.func.value.id == nm and st.value.func.attr in ("extend", "append", "update", "add") and st.value.args:
                    add(st.value.args[0], x.id, depth + 1)
            # a loop that feeds the name: `for t in <iter>: name.extend(t.X)` is covered by the statement above; a loop variable
            # that is itself read (`for s in self._new: name.append(s)`) contributes its iterable
            for lp_ in [y for y in walk_local(f.node) if isinstance(y, ast.For) and isinstance(y.target, ast.Name) and y.target.id == nm]:
                for x in g.nodes_for(lp_):
                    add(lp_.iter, x, depth + 1)

    for d in det:
        c = next(c for c in calls_in(g.node(d).stmt) if isinstance(c.func, ast.Attribute) and c.func.attr == "_detach_states" and c.args)
        add(c.args[0], d)

    def resets_of(h):
        out = []
        for x in g.nodes:
            st = x.stmt
            if x.kind != "stmt" or not isinstance(st, ast.stmt):
                continue
            if isinstance(st, (ast.Assign, ast.AnnAssign)):
                tg = st.targets if isinstance(st, ast.Assign) else [st.target]
                if any(home(t) == h for t in tg):
                    out.append(x.id)
            elif isinstance(st, ast.Expr) and isinstance(st.value, ast.Call) and isinstance(st.value.func, ast.Attribute) and st.value.func.attr in ("clear", "_kill") \
                    and home(st.value.func.value) == h:
                out.append(x.id)
        return out

    for h, primary in sorted(homes.items()):
        key = f"{f.key}:detaches[{_home_text(h)}]"
        reads = [nid for e, nid in flows if any(home(a) == h for a in ast.walk(e))]
        resets = resets_of(h)
        if reads:
            # "emptied before collected" within one pass: the heads of the loops around the collecting statement cut the paths
            # (`for t in <transactions>: all.extend(t._deleted); t._deleted.clear()` empties the map of ANOTHER transaction next time round)
            w = None
            for rd in reads:
                heads = []
                for a in ancestors(pm, g.node(rd).stmt):
                    if a is f.node:
                        break
                    if isinstance(a, (ast.For, ast.While)):
                        heads += [x for x in g.nodes_for(a) if g.node(x).kind in ("for", "test")]
                w = w or (g.witness(resets, [rd], avoid=heads) if resets else None)
            ctx.check(w is None, key, f"{_home_text(h)} is emptied before its states are collected for _detach_states: they are dropped from the session still attached",
                      "collected for _detach_states" + (" and reset afterwards" if resets else ""), f.loc, g.describe_path(w) if w else None)
        elif not primary and resets:
            ctx.ok(key, "its members are members of another collected collection; reset")
        else:
            what = "neither detaches nor resets" if not resets else "resets but does not detach"
            ctx.violation(key, f"expunge_all() {what} the states kept in {_home_text(h)}, although expunge(obj) (_expunge_states) removes a state from there and detaches it"
                               + ("; a state that lives only there -- an object whose DELETE was flushed is discarded from the identity map and kept in the "
                                  "transaction's _deleted until the transaction ends -- stays attached: after Session.close() it still reports `deleted` "
                                  "(session_id set, no deleted_to_detached / deleted_to_persistent event) for a transaction that no longer exists" if h == ("tx", "_deleted") else ""),
                          f.loc)


# ---------------------------------------------------------------------- self-test battery
R.mutant("pending-ignores-attached", STATE, sub("        return self.key is None and self._attached\n", "        return self.key is None\n"), "C35-R1")
R.mutant("persistent-forgets-deleted", STATE, sub("        return self.key is not None and self._attached and not self._deleted\n", "        return self.key is not None and self._attached\n"), "C35-R1")
R.mutant("detached-requires-not-deleted", STATE, sub("        return self.key is not None and not self._attached\n", "        return self.key is not None and not self._attached and not self._deleted\n"), "C35-R1")
R.mutant("event-never-dispatched", SESSION, sub("            self.dispatch.detached_to_persistent(self, state)\n", "            pass\n"), "C35-R2")
R.mutant("dispatch-undeclared-event", SESSION, sub("            self.dispatch.transient_to_pending(self, state)\n", "            self.dispatch.transient_to_persistent(self, state)\n"), "C35-R2")
R.mutant("event-not-declared", EVENTS, sub("    def pending_to_transient(self, session: Session, instance: _O) -> None:", "    def pending_to_transientx(self, session: Session, instance: _O) -> None:"), "C35-R2")
R.mutant("attach-events-swapped", SESSION, sub("        if state.key:\n            self.dispatch.detached_to_persistent(self, state)", "        if not state.key:\n            self.dispatch.detached_to_persistent(self, state)"), "C35-R3")
R.mutant("detach-persistent-ignores-deleted", STATE, sub("            persistent = not pending and not deleted\n", "            persistent = not pending\n"), "C35-R3")
R.mutant("detach-transient-branch-swapped", STATE, sub("                if to_transient:\n                    if persistent_to_transient is not None:", "                if not to_transient:\n                    if persistent_to_transient is not None:"), "C35-R3")
R.mutant("pending-to-persistent-for-all-states", SESSION, sub("            for state in states.intersection(self._new):\n                pending_to_persistent(self, state)", "            for state in states:\n                pending_to_persistent(self, state)"), "C35-R3")
R.mutant("deleted-event-before-mark", SESSION,
         sub("            state._deleted = True\n            # can't call state._detach() here, because this state\n            # is still in the transaction snapshot and needs to be\n            # tracked as part of that\n            if persistent_to_deleted is not None:\n                persistent_to_deleted(self, state)\n",
             "            if persistent_to_deleted is not None:\n                persistent_to_deleted(self, state)\n            state._deleted = True\n"), "C35-R3")
R.mutant("loaded-as-persistent-for-existing", LOADING, sub("                    if persistent_evt:\n                        loaded_as_persistent(context.session, state)\n                        if state.runid != existing_runid:\n                            _warn_for_runid_changed(state)\n                elif refresh_evt:",
                                                          "                elif persistent_evt:\n                    loaded_as_persistent(context.session, state)\n                elif refresh_evt:"), "C35-R3")
R.mutant("loaded-as-persistent-unguarded", LOADING, sub("                if loaded_instance:\n                    if load_evt:", "                if True:\n                    if load_evt:"), "C35-R3")
R.mutant("new-writer-of-deleted", SESSION, sub("    def _validate_persistent(self, state: InstanceState[Any]) -> None:\n", "    def _validate_persistent(self, state: InstanceState[Any]) -> None:\n        state._deleted = False\n"), "C35-R4")
R.mutant("new-writer-of-session-id", "orm/identity.py", sub("    def _manage_removed_state(self, state: InstanceState[Any]) -> None:\n", "    def _manage_removed_state(self, state: InstanceState[Any]) -> None:\n        state.session_id = None\n"), "C35-R4")
# benign refactors
R.mutant("benign-reorder-conjuncts", STATE, sub("        return self.key is not None and self._attached and self._deleted\n", "        return self._deleted and self._attached and self.key is not None\n"), None)
R.mutant("benign-rename-local", STATE, sub("            pending = state.key is None\n            persistent = not pending and not deleted\n", "            is_pending = state.key is None\n            pending = is_pending\n            persistent = not is_pending and not deleted\n"), None)
R.mutant("benign-logging-in-attach", SESSION, sub("        self.dispatch.after_attach(self, state)\n", "        self.dispatch.after_attach(self, state)\n        _dbg = state_str(state)\n"), None)

# ---- seeds / C35-R5 / tightened C35-R3(e)
_TT = "            if to_transient and state.key:\n                del state.key\n                if deleted:\n                    del state._deleted\n"
R.mutant("seed-detach-to-transient-keeps-deleted-flag", STATE, sub(_TT, "            if to_transient and state.key:\n                del state.key\n"), "C35-R5")
R.mutant("detach-clears-deleted-flag-only-when-persistent", STATE,
         sub(_TT, "            if to_transient and state.key:\n                del state.key\n                if deleted and persistent:\n                    del state._deleted\n"), "C35-R5")
R.mutant("detach-removes-key-without-to-transient", STATE, sub(_TT, "            if state.key:\n                del state.key\n                if deleted:\n                    del state._deleted\n"), "C35-R5")
R.mutant("make-transient-keeps-deleted-flag", SESSION,
         sub("    if state.key:\n        del state.key\n    if state._deleted:\n        del state._deleted\n", "    if state.key:\n        del state.key\n"), "C35-R5")
R.mutant("make-transient-to-detached-keeps-deleted-flag", SESSION,
         sub("    state.key = state.mapper._identity_key_from_state(state)\n    if state._deleted:\n        del state._deleted\n", "    state.key = state.mapper._identity_key_from_state(state)\n"), "C35-R5")
R.mutant("benign-detach-clears-flag-in-own-statement", STATE,
         sub(_TT, "            if to_transient and state.key:\n                del state.key\n            if to_transient and deleted:\n                state._deleted = False\n"), None)
R.mutant("seed-deleted-to-persistent-without-was-deleted", SESSION,
         chain(sub("        was_deleted = state._deleted\n        if state._deleted:\n            if revert_deletion:", "        if state._deleted:\n            if revert_deletion:"),
               sub("        elif revert_deletion and was_deleted:\n", "        elif revert_deletion:\n")), "C35-R3")
R.mutant("was-deleted-read-after-the-flag-is-cleared", SESSION,
         chain(sub("        was_deleted = state._deleted\n        if state._deleted:\n            if revert_deletion:", "        if state._deleted:\n            if revert_deletion:"),
               sub("        obj = state.obj()\n\n        # check for late gc\n        if obj is None:\n            return\n\n        to_attach = self._before_attach(state, obj)\n\n        self._deleted.pop(state, None)\n",
                   "        was_deleted = state._deleted\n        obj = state.obj()\n\n        # check for late gc\n        if obj is None:\n            return\n\n        to_attach = self._before_attach(state, obj)\n\n        self._deleted.pop(state, None)\n")), "C35-R3")
R.mutant("benign-was-deleted-renamed", SESSION,
         chain(sub("        was_deleted = state._deleted\n        if state._deleted:\n            if revert_deletion:", "        flushed_delete = state._deleted\n        if flushed_delete:\n            if revert_deletion:"),
               sub("        elif revert_deletion and was_deleted:\n", "        elif flushed_delete and revert_deletion:\n")), None)

# ---------------------------------------------------------------------- rob-B2: behaviour-preserving refactorings that must stay silent
# (families of benign/rfB_13, rfB_14, rfB_15 and further ones) and breaking edits made THROUGH the same shapes
_P_DEL = "        return self.key is not None and self._attached and self._deleted\n"
_P_PERS = "        return self.key is not None and self._attached and not self._deleted\n"
_P_DET = "        return self.key is not None and not self._attached\n"
_GC = "        if self.key is None or not self._attached:\n            # transient / pending, or detached\n            return False\n"
R.mutant("benign-predicates-as-guard-clauses", STATE,
         chain(sub(_P_DEL, _GC + "        return self._deleted\n"), sub(_P_PERS, _GC + "        return not self._deleted\n"),
               sub(_P_DET, "        if self.key is None:\n            return False\n        return not self._attached\n")), None)
R.mutant("benign-predicates-locals-and-ifelse", STATE,
         chain(sub(_P_PERS, "        has_identity = self.key is not None\n        in_session = has_identity and self._attached\n        if in_session:\n            return not self._deleted\n        else:\n            return False\n"),
               sub("        return self.key is None and self._attached\n", "        return False if self.key is not None else bool(self._attached)\n")), None)
R.mutant("benign-predicates-share-a-helper-property", STATE,
         chain(sub("    @property\n    def deleted(self) -> bool:\n", "    @property\n    def _has_identity_in_session(self) -> bool:\n        return self.key is not None and self._attached\n\n    @property\n    def deleted(self) -> bool:\n"),
               sub(_P_DEL, "        return self._has_identity_in_session and self._deleted\n"), sub(_P_PERS, "        return self._has_identity_in_session and not self._deleted\n")), None)
R.mutant("guard-clause-persistent-forgets-deleted", STATE, sub(_P_PERS, "        if self.key is None:\n            return False\n        return self._attached\n"), "C35-R1")
R.mutant("guard-clause-detached-wrong-early-value", STATE, sub(_P_DET, "        if self.key is None:\n            return True\n        return not self._attached\n"), "C35-R1")
R.mutant("helper-property-deleted-ignores-attached", STATE,
         chain(sub("    @property\n    def deleted(self) -> bool:\n", "    @property\n    def _has_identity(self) -> bool:\n        return self.key is not None\n\n    @property\n    def deleted(self) -> bool:\n"),
               sub(_P_DEL, "        return self._has_identity and self._deleted\n")), "C35-R1")
# _detach_states: dispatcher held in a local, flags renamed, nested if flattened to if/elif (benign/rfB_14)
_DS_HEAD = ("        persistent_to_detached = (\n            session.dispatch.persistent_to_detached or None\n        )\n        deleted_to_detached = session.dispatch.deleted_to_detached or None\n"
            "        pending_to_transient = session.dispatch.pending_to_transient or None\n        persistent_to_transient = (\n            session.dispatch.persistent_to_transient or None\n        )\n")
_DS_HEAD_NEW = ("        dispatch = session.dispatch\n\n        persistent_to_detached = dispatch.persistent_to_detached or None\n        deleted_to_detached = dispatch.deleted_to_detached or None\n"
                "        pending_to_transient = dispatch.pending_to_transient or None\n        persistent_to_transient = dispatch.persistent_to_transient or None\n")
_DS_CHAIN = ("            if persistent:\n                if to_transient:\n                    if persistent_to_transient is not None:\n                        persistent_to_transient(session, state)\n"
             "                elif persistent_to_detached is not None:\n                    persistent_to_detached(session, state)\n"
             "            elif deleted and deleted_to_detached is not None:\n                deleted_to_detached(session, state)\n"
             "            elif pending and pending_to_transient is not None:\n                pending_to_transient(session, state)\n")
_DS_CHAIN_FLAT = ("            if persistent and to_transient:\n                if persistent_to_transient is not None:\n                    persistent_to_transient(session, state)\n"
                  "            elif persistent:\n                if persistent_to_detached is not None:\n                    persistent_to_detached(session, state)\n"
                  "            elif deleted and deleted_to_detached is not None:\n                deleted_to_detached(session, state)\n"
                  "            elif pending and pending_to_transient is not None:\n                pending_to_transient(session, state)\n")
R.mutant("benign-detach-dispatch-alias-and-flat-chain", STATE, chain(sub(_DS_HEAD, _DS_HEAD_NEW), sub(_DS_CHAIN, _DS_CHAIN_FLAT)), None)
R.mutant("benign-detach-truthiness-and-continue", STATE,
         sub(_DS_CHAIN, "            if pending:\n                if pending_to_transient:\n                    pending_to_transient(session, state)\n                state._strong_obj = None\n                continue\n"
                        "            if deleted:\n                if deleted_to_detached:\n                    deleted_to_detached(session, state)\n"
                        "            elif to_transient:\n                if persistent_to_transient:\n                    persistent_to_transient(session, state)\n"
                        "            elif persistent_to_detached:\n                persistent_to_detached(session, state)\n"), None)
R.mutant("detach-dispatch-alias-flat-chain-arms-swapped", STATE,
         chain(sub(_DS_HEAD, _DS_HEAD_NEW), sub(_DS_CHAIN, _DS_CHAIN_FLAT.replace("            if persistent and to_transient:\n", "            if persistent and not to_transient:\n"))), "C35-R3")
R.mutant("detach-dispatch-alias-event-vanishes", STATE,
         chain(sub(_DS_HEAD, _DS_HEAD_NEW.replace("        pending_to_transient = dispatch.pending_to_transient or None\n", "        pending_to_transient = None\n"))), "C35-R2")
# _after_attach: dispatcher alias, arms swapped together with the test
_AA_OLD = "        if state.key:\n            self.dispatch.detached_to_persistent(self, state)\n        else:\n            self.dispatch.transient_to_pending(self, state)\n"
R.mutant("benign-attach-dispatch-alias-inverted-test", SESSION,
         sub(_AA_OLD, "        dispatch = self.dispatch\n        if state.key is None:\n            dispatch.transient_to_pending(self, state)\n        else:\n            dispatch.detached_to_persistent(self, state)\n"), None)
R.mutant("attach-dispatch-alias-wrong-arm", SESSION,
         sub(_AA_OLD, "        dispatch = self.dispatch\n        if state.key is not None:\n            dispatch.transient_to_pending(self, state)\n        else:\n            dispatch.detached_to_persistent(self, state)\n"), "C35-R3")
# _register_persistent: the pending states held in a local / tested per state
_PP_OLD = "            for state in states.intersection(self._new):\n                pending_to_persistent(self, state)"
R.mutant("benign-pending-to-persistent-local-set", SESSION, sub(_PP_OLD, "            were_pending = states.intersection(self._new)\n            for state in were_pending:\n                pending_to_persistent(self, state)"), None)
R.mutant("benign-pending-to-persistent-membership-test", SESSION, sub(_PP_OLD, "            for state in states:\n                if state in self._new:\n                    pending_to_persistent(self, state)"), None)
R.mutant("pending-to-persistent-local-set-of-all-states", SESSION, sub(_PP_OLD, "            were_pending = set(states)\n            for state in were_pending:\n                pending_to_persistent(self, state)"), "C35-R3")
# ownership through a private helper (benign/rfB_15): the PK switch of _register_persistent moved into a helper
_SW_OLD = ("                    self.identity_map.safe_discard(state)\n                    trans = self._transaction\n                    assert trans is not None\n"
           "                    if state in trans._key_switches:\n                        orig_key = trans._key_switches[state][0]\n                    else:\n                        orig_key = state.key\n"
           "                    trans._key_switches[state] = (\n                        orig_key,\n                        instance_key,\n                    )\n                    state.key = instance_key\n")
_SW_HEAD = "    def _register_altered(self, states: Iterable[InstanceState[Any]]) -> None:\n"
R.mutant("benign-key-switch-in-helper-of-an-owner", SESSION,
         chain(sub(_SW_OLD, "                    self._switch_identity_key(state, instance_key)\n"),
               sub(_SW_HEAD, "    def _switch_identity_key(self, state: InstanceState[Any], instance_key: Any) -> None:\n        self.identity_map.safe_discard(state)\n        trans = self._transaction\n"
                             "        assert trans is not None\n        key_switches = trans._key_switches\n        if state in key_switches:\n            orig_key = key_switches[state][0]\n        else:\n"
                             "            orig_key = state.key\n        key_switches[state] = (orig_key, instance_key)\n        state.key = instance_key\n\n" + _SW_HEAD)), None)
_VP = "    def _validate_persistent(self, state: InstanceState[Any]) -> None:\n"
R.mutant("helper-of-a-non-owner-writes-deleted", SESSION,
         sub(_VP, "    def _forget_deletion(self, state: InstanceState[Any]) -> None:\n        state._deleted = False\n\n" + _VP + "        self._forget_deletion(state)\n"), "C35-R4")
R.mutant("helper-shared-by-owner-and-non-owner-writes-key", SESSION,
         chain(sub(_SW_OLD.replace("                    self.identity_map.safe_discard(state)\n", ""), _SW_OLD.replace("                    self.identity_map.safe_discard(state)\n", "").replace("                    state.key = instance_key\n", "                    self._set_key(state, instance_key)\n")),
               sub(_VP, "    def _set_key(self, state: InstanceState[Any], key: Any) -> None:\n        state.key = key\n\n" + _VP + "        self._set_key(state, state.key)\n")), "C35-R4")

_UI_OLD = "        elif revert_deletion and was_deleted:\n            self.dispatch.deleted_to_persistent(self, state)\n"
R.mutant("benign-update-impl-event-alias-and-named-guard", SESSION,
         sub(_UI_OLD, "        else:\n            reverted = revert_deletion and was_deleted\n            deleted_to_persistent = self.dispatch.deleted_to_persistent or None\n"
                      "            if reverted and deleted_to_persistent is not None:\n                deleted_to_persistent(self, state)\n"), None)
R.mutant("update-impl-event-alias-guard-forgets-was-deleted", SESSION,
         sub(_UI_OLD, "        else:\n            reverted = revert_deletion\n            deleted_to_persistent = self.dispatch.deleted_to_persistent or None\n"
                      "            if reverted and deleted_to_persistent is not None:\n                deleted_to_persistent(self, state)\n"), "C35-R3")

# ---------------------------------------------------------------------- str2-n: round-2 seed C35_3 (make_transient) and benign shapes around it
_MT_SESS = "    s = _state_session(state)\n    if s:\n        s._expunge_states([state])\n"
_MT_TAIL = "    if state.key:\n        del state.key\n    if state._deleted:\n        del state._deleted\n\n\ndef make_transient_to_detached("
_MT_TAIL_KEY = "    if state.key:\n        del state.key\n\n\ndef make_transient_to_detached("
R.mutant("seed-make-transient-clears-deleted-only-with-a-session", SESSION,
         chain(sub(_MT_SESS, _MT_SESS + "\n        if state._deleted:\n            del state._deleted\n"), sub(_MT_TAIL, _MT_TAIL_KEY)), "C35-R5")
R.mutant("make-transient-clears-deleted-only-if-session-is-not-none", SESSION,
         sub(_MT_TAIL, "    if state.key:\n        del state.key\n    if s is not None and state._deleted:\n        del state._deleted\n\n\ndef make_transient_to_detached("), "C35-R5")
R.mutant("make-transient-erases-key-only-with-a-session", SESSION,
         chain(sub(_MT_SESS, _MT_SESS + "        if state.key:\n            del state.key\n"),
               sub(_MT_TAIL, "    if state._deleted:\n        del state._deleted\n\n\ndef make_transient_to_detached(")), "C35-R5")
_MT_DEF = "def make_transient(instance: object) -> None:\n"
R.mutant("make-transient-identity-helper-forgets-deleted", SESSION,
         chain(sub(_MT_TAIL, "    _erase_identity(state)\n\n\ndef make_transient_to_detached("),
               sub(_MT_DEF, "def _erase_identity(state: InstanceState[Any]) -> None:\n    if state.key:\n        del state.key\n\n\n" + _MT_DEF)), "C35-R5")
R.mutant("benign-make-transient-session-is-not-none", SESSION,
         sub(_MT_SESS, "    owner = _state_session(state)\n    if owner is not None:\n        owner._expunge_states([state])\n"), None)
R.mutant("benign-make-transient-session-attribute-guard-clause", SESSION,
         sub(_MT_SESS, "    attached = state.session is not None\n    if attached:\n        state.session._expunge_states([state])\n"), None)
R.mutant("benign-make-transient-identity-helper", SESSION,
         chain(sub(_MT_TAIL, "    _erase_identity(state)\n\n\ndef make_transient_to_detached("),
               sub(_MT_DEF, "def _erase_identity(state: InstanceState[Any]) -> None:\n    if state._deleted:\n        del state._deleted\n    if state.key:\n        del state.key\n\n\n" + _MT_DEF)), None)
R.mutant("benign-make-transient-flag-remembered-and-reordered", SESSION,
         sub(_MT_TAIL, "    was_deleted = state._deleted\n    if was_deleted:\n        state._deleted = False\n    if state.key is not None:\n        del state.key\n\n\ndef make_transient_to_detached("), None)

# ---- C35-R6 (fires on the unchanged tree for `self._transaction._deleted`: findings/C35_close_leaves_deleted_state_attached.py)
_EA_OLD = "        all_states = self.identity_map.all_states() + list(self._new)\n        self.identity_map._kill()\n        self.identity_map = identity._WeakInstanceDict()\n        self._new = {}\n        self._deleted = {}\n"
R.mutant("expunge-all-forgets-pending-objects", SESSION, sub(_EA_OLD, _EA_OLD.replace(" + list(self._new)", "")), "C35-R6")
R.mutant("expunge-all-keeps-delete-marks", SESSION, sub(_EA_OLD, _EA_OLD.replace("        self._deleted = {}\n", "")), "C35-R6")
R.mutant("expunge-all-resets-new-before-collecting", SESSION,
         sub(_EA_OLD, "        self._new = {}\n" + _EA_OLD.replace("        self._new = {}\n", "")), "C35-R6")
R.mutant("expunge-all-detaches-only-identity-map-via-extend", SESSION,
         sub(_EA_OLD, _EA_OLD.replace("        all_states = self.identity_map.all_states() + list(self._new)\n", "        all_states = []\n        all_states.extend(self.identity_map.all_states())\n")), "C35-R6")
R.mutant("benign-expunge-all-collects-with-extend", SESSION,
         sub(_EA_OLD, _EA_OLD.replace("        all_states = self.identity_map.all_states() + list(self._new)\n",
                                      "        all_states = list(self.identity_map.all_states())\n        all_states.extend(self._new)\n")), None)
R.mutant("benign-expunge-all-locals-and-reordered-resets", SESSION,
         sub(_EA_OLD, "        pending = list(self._new)\n        persistent = self.identity_map.all_states()\n        all_states = persistent + pending\n        self._deleted = {}\n        self._new = {}\n"
                      "        self.identity_map._kill()\n        self.identity_map = identity._WeakInstanceDict()\n"), None)
R.mutant("benign-expunge-states-transaction-alias-and-guard-clauses", SESSION,
         sub("            elif self._transaction:\n                # state is \"detached\" from being deleted, but still present\n                # in the transaction snapshot\n                self._transaction._deleted.pop(state, None)\n",
             "            else:\n                trans = self._transaction\n                if trans is not None:\n                    trans._deleted.pop(state, None)\n"), None)
# a repair of the finding written two ways: both must be accepted (no violation at all; judged silent relative to the baseline)
R.mutant("benign-fix-expunge-all-detaches-transaction-deleted", SESSION,
         sub(_EA_OLD, _EA_OLD + "        if self._transaction is not None:\n            for trans in self._transaction._iterate_self_and_parents():\n"
                                "                all_states.extend(s for s in trans._deleted if s not in all_states)\n                trans._deleted.clear()\n"), None)
