"""na-d -- helpers of c17.py / c42.py.  Nothing here imports or runs SQLAlchemy; everything works on `ast`.

`Sub` is a *flow sensitive substitution* of local names: an expression evaluated at a CFG node is rewritten into
the list of expressions it can stand for when every local is replaced by the value of a definition that reaches
that node (classic reaching definitions, `_helpers_rob_c2.ReachingDefs`, imported read-only).  What is left in an
alternative are parameters, free variables / globals, attribute chains, calls and a few pseudo calls:

    __elem__(X)      an element of the iterable X (loop / comprehension variable)
    __item__(X, i)   component i of X (tuple unpacking that could not be resolved positionally)
    __key__(X)       a key of the mapping X (`for k, v in X.items()`)
    __index__        the counter of an `enumerate()`
    __enter__(X)     `with X as name`
    __cyc__<name>    a loop carried definition (the definition refers to itself)

`for a, b in zip(X, Y)`, `enumerate(X)`, `X.items()` and `a, b = (p, q)` are resolved positionally.  Rules then
match *structure* of the alternatives (which attribute of which parameter, which call), never a local's name.
Rebuilt nodes carry `_nd_orig` (the node of the function's own AST they were copied from), so a rule can ask whether a
particular construct (a comprehension, a call) is part of a value.

Dominating branch outcomes that compare a local with a sentinel (`x is not NO_CACHE`, `x is None`) prune the
definitions that cannot reach: `if x is not S:` drops `x = S`.
"""

from __future__ import annotations

import ast
import copy
import itertools
from typing import Callable, Dict, Iterable, List, Optional, Sequence, Set, Tuple

from ..astutil import ScopeNode, dotted, own_exprs, unparse
from ..errors import AnalysisError
from ._helpers_rob_c2 import Def, ReachingDefs, fn_params

ELEM, ITEM, KEY, ENTER, INDEX, CYC = "__elem__", "__item__", "__key__", "__enter__", "__index__", "__cyc__"
PSEUDO = {ELEM, ITEM, KEY, ENTER}


class Overflow(AnalysisError):
    pass


def _load(name: str) -> ast.Name:
    return ast.Name(id=name, ctx=ast.Load())


def pseudo(name: str, *args: ast.expr) -> ast.Call:
    return ast.Call(func=_load(name), args=list(args), keywords=[])


def is_pseudo(e, name: Optional[str] = None) -> bool:
    return isinstance(e, ast.Call) and isinstance(e.func, ast.Name) and (e.func.id == name if name else e.func.id in PSEUDO)


def orig(n):
    """the node of the analysed function's own AST that `n` was copied from (n itself when it was not rebuilt)"""
    return getattr(n, "_nd_orig", n)


def _callee_last(c: ast.Call) -> str:
    f = c.func
    if isinstance(f, ast.Attribute):
        return f.attr
    if isinstance(f, ast.Name):
        return f.id
    return ""


def elem_of(it: ast.expr, path: Tuple) -> ast.expr:
    """component `path` of an element of iterable `it`"""
    if path and isinstance(it, ast.Call) and not it.keywords:
        nm = _callee_last(it)
        i = path[0]
        if isinstance(it.func, ast.Name) and nm == "zip" and isinstance(i, int) and i < len(it.args) \
                and not any(isinstance(a, ast.Starred) for a in it.args):
            return elem_of(it.args[i], path[1:])
        if isinstance(it.func, ast.Name) and nm == "enumerate" and it.args and isinstance(i, int):
            if i == 0:
                return _load(INDEX)
            if i == 1:
                return elem_of(it.args[0], path[1:])
        if isinstance(it.func, ast.Attribute) and nm == "items" and not it.args and isinstance(i, int):
            if i == 0:
                return project(pseudo(KEY, it.func.value), path[1:])
            if i == 1:
                return project(pseudo(ELEM, it.func.value), path[1:])
    if isinstance(it, ast.Call) and isinstance(it.func, ast.Name) and it.func.id in ("list", "tuple", "sorted", "reversed", "iter") \
            and len(it.args) == 1 and not it.keywords:
        return elem_of(it.args[0], path)
    return project(pseudo(ELEM, it), path)


def project(v: ast.expr, path: Tuple) -> ast.expr:
    for i in path:
        if isinstance(v, (ast.Tuple, ast.List)) and isinstance(i, int) and i < len(v.elts) \
                and not any(isinstance(e, ast.Starred) for e in v.elts):
            v = v.elts[i]
        else:
            v = pseudo(ITEM, v, ast.Constant(value=i))
    return v


def _flatten(t, path=()):
    if isinstance(t, (ast.Tuple, ast.List)):
        out = []
        for i, e in enumerate(t.elts):
            out.extend(_flatten(e, path + (i,)))
        return out
    if isinstance(t, ast.Starred):
        return _flatten(t.value, path + (None,))
    return [(t, path)]


class _Rebuild(ast.NodeTransformer):
    """copy of an expression with names replaced by `env[name]`; comprehension / lambda variables shadow."""

    def __init__(self, env: Dict[str, ast.expr]):
        self.env = dict(env)

    def generic_visit(self, node):
        new = type(node).__new__(type(node))
        new.__dict__.update(node.__dict__)
        new._nd_orig = orig(node)
        for fld, old in ast.iter_fields(node):
            if isinstance(old, list):
                vals = []
                for x in old:
                    if isinstance(x, ast.AST):
                        x = self.visit(x)
                    vals.append(x)
                setattr(new, fld, vals)
            elif isinstance(old, ast.AST):
                setattr(new, fld, self.visit(old))
        return new

    def visit_Name(self, node):
        if isinstance(node.ctx, ast.Load) and node.id in self.env:
            val = self.env[node.id]
            v = copy.copy(val)          # shallow: children stay shared, identity of what it was copied from is kept
            v._nd_orig = orig(val)
            v._nd_from = node
            return v
        return node

    def visit_Lambda(self, node):
        saved = self.env
        self.env = {k: v for k, v in saved.items() if k not in set(fn_params(node))}
        try:
            return self.generic_visit(node)
        finally:
            self.env = saved

    def _comp(self, node, parts: Sequence[str]):
        saved = self.env
        self.env = dict(saved)
        try:
            new = type(node).__new__(type(node))
            new.__dict__.update(node.__dict__)
            new._nd_orig = orig(node)
            gens = []
            for g in node.generators:
                g2 = ast.comprehension.__new__(ast.comprehension)
                g2.__dict__.update(g.__dict__)
                g2._nd_orig = orig(g)
                g2.iter = self.visit(g.iter)
                for leaf, path in _flatten(g.target):
                    if isinstance(leaf, ast.Name):
                        self.env[leaf.id] = elem_of(g2.iter, path)
                g2.ifs = [self.visit(x) for x in g.ifs]
                gens.append(g2)
            new.generators = gens
            for p in parts:
                setattr(new, p, self.visit(getattr(node, p)))
            return new
        finally:
            self.env = saved

    def visit_ListComp(self, node):
        return self._comp(node, ("elt",))

    def visit_SetComp(self, node):
        return self._comp(node, ("elt",))

    def visit_GeneratorExp(self, node):
        return self._comp(node, ("elt",))

    def visit_DictComp(self, node):
        return self._comp(node, ("key", "value"))


def _bound_inside(expr: ast.AST) -> Set[int]:
    """ids of Name nodes of `expr` that are bound by a comprehension / lambda inside it"""
    out: Set[int] = set()

    def go(n, bound: frozenset):
        if isinstance(n, (ast.ListComp, ast.SetComp, ast.GeneratorExp, ast.DictComp)):
            b = set(bound)
            for g in n.generators:
                go(g.iter, frozenset(b))
                for leaf, _ in _flatten(g.target):
                    if isinstance(leaf, ast.Name):
                        b.add(leaf.id)
                for x in g.ifs:
                    go(x, frozenset(b))
            fb = frozenset(b)
            for p in ("elt", "key", "value"):
                if hasattr(n, p):
                    go(getattr(n, p), fb)
            return
        if isinstance(n, ast.Lambda):
            go(n.body, bound | frozenset(fn_params(n)))
            return
        if isinstance(n, ast.Name) and n.id in bound:
            out.add(id(n))
        for ch in ast.iter_child_nodes(n):
            go(ch, bound)
    go(expr, frozenset())
    return out


class Sub:
    """one function (FuncInfo or raw def node) + CFG + reaching definitions + substitution of locals"""

    CAP = 160

    def __init__(self, ctx, f, outer: Optional["Sub"] = None):
        self.ctx = ctx
        self.fn = f.node if hasattr(f, "node") else f
        self.info = f if hasattr(f, "node") else None
        self.g = ctx.cfg(f)
        self.rd = ReachingDefs(self.g, self.fn)
        self.params = fn_params(self.fn)
        self.outer = outer
        self._node_of: Dict[int, int] = {}
        self._root_of: Dict[int, ast.AST] = {}
        for n in self.g.nodes:
            st = n.stmt
            if st is None or n.kind in ("with_exit", "join") or n.copy:
                continue
            for part in (own_exprs(st) if isinstance(st, ast.stmt) else []):
                for x in ast.walk(part):
                    self._node_of.setdefault(id(x), n.id)
                    self._root_of.setdefault(id(x), part)
        self._guards: Dict[int, List[Tuple[ast.expr, bool]]] = {}
        self._memo: Dict = {}

    # ------------------------------------------------------------------ lookups
    def node_of(self, expr) -> Optional[int]:
        return self._node_of.get(id(orig(expr)))

    def guards(self, at: int) -> List[Tuple[ast.expr, bool]]:
        if at not in self._guards:
            out = []
            for t, pol in self.g.edge_guards(at):
                out.extend(_conj(t, pol))
            self._guards[at] = out
        return self._guards[at]

    def _live_defs(self, name: str, at: int) -> List[Def]:
        defs = self.rd.at(at, name)
        if len(defs) < 2:
            return defs
        keep = list(defs)
        for t, pol in self.guards(at):
            if isinstance(t, ast.Compare) and len(t.ops) == 1 and isinstance(t.left, ast.Name) and t.left.id == name \
                    and isinstance(t.ops[0], (ast.Is, ast.Eq)):
                s = unparse(t.comparators[0])
                same = [d for d in keep if d.kind == "assign" and not d.path and d.value is not None and unparse(d.value) == s]
                if pol:
                    if same:
                        keep = same
                else:
                    keep = [d for d in keep if d not in same]
        return keep or defs

    # ------------------------------------------------------------------ substitution
    def alts(self, expr: ast.expr, at: Optional[int] = None, _chain: Tuple[int, ...] = ()) -> List[ast.expr]:
        """the expressions `expr` (evaluated at CFG node `at`) may stand for, locals substituted"""
        if at is None:
            at = self.node_of(expr)
        if at is None:
            return [expr]
        key = (id(expr), at, _chain)
        if key in self._memo:
            return self._memo[key]
        bound = _bound_inside(expr)
        names: List[str] = []
        for n in ast.walk(expr):
            if isinstance(n, ast.Name) and isinstance(n.ctx, ast.Load) and id(n) not in bound and n.id not in names:
                names.append(n.id)
        choices: List[Tuple[str, List[ast.expr]]] = []
        for nm in names:
            vals = self._name_alts(nm, at, _chain)
            if vals is not None:
                choices.append((nm, vals))
        if not choices:
            out = [expr]
        else:
            total = 1
            for _, v in choices:
                total *= max(1, len(v))
            if total > self.CAP:
                raise Overflow(f"too many alternative definitions while resolving `{unparse(expr)[:80]}` ({total})")
            out = []
            for combo in itertools.product(*[v for _, v in choices]):
                env = {nm: val for (nm, _), val in zip(choices, combo)}
                out.append(_Rebuild(env).visit(expr))
        split: List[ast.expr] = []
        for o in out:
            split.extend(split_ifexp(o))
        out = split
        self._memo[key] = out
        return out

    def _name_alts(self, name: str, at: int, chain: Tuple[int, ...]) -> Optional[List[ast.expr]]:
        defs = self._live_defs(name, at)
        if not defs:
            return None             # free variable / global / builtin: stays a Name
        out: List[ast.expr] = []
        for d in defs:
            if d.kind in ("param", "scope", "import", "handler"):
                out.append(_load(name))
                continue
            if d.id in chain:
                out.append(_load(CYC + name))
                continue
            ch = chain + (d.id,)
            if d.kind == "assign":
                for v in self.alts(d.value, d.node, ch):
                    out.append(project(v, d.path))
            elif d.kind == "aug":
                st = d.stmt
                prev = self._name_alts(name, d.node, ch) or [_load(name)]
                for p in prev:
                    for v in self.alts(d.value, d.node, ch):
                        b = ast.BinOp(left=p, op=st.op, right=v)
                        b._nd_orig = st
                        out.append(b)
            elif d.kind == "for":
                for v in self.alts(d.value, d.node, ch):
                    out.append(elem_of(v, d.path))
            elif d.kind == "with":
                for v in self.alts(d.value, d.node, ch):
                    out.append(project(pseudo(ENTER, v), d.path))
            else:
                out.append(_load(name))
        # an augmented definition already contains what reached it; drop plain definitions it subsumes
        augs = [d for d in defs if d.kind == "aug"]
        if augs and len(out) > 1:
            pass
        uniq: Dict[str, ast.expr] = {}
        for v in out:
            uniq.setdefault(ast.dump(v), v)
        return list(uniq.values())

    def ctx_alts(self, node: ast.AST) -> List[ast.AST]:
        """the forms `node` (any sub-expression of a statement of this function, also one inside a comprehension)
        takes in the alternatives of the statement-level expression it belongs to"""
        root = self._root_of.get(id(node))
        at = self._node_of.get(id(node))
        if root is None or at is None:
            return [node]
        out: List[ast.AST] = []
        seen: Set[str] = set()
        for alt in self.alts(root, at):
            for n in ast.walk(alt):
                if n is node or getattr(n, "_nd_from", None) is node or (getattr(n, "_nd_orig", None) is node and not hasattr(n, "_nd_from")):
                    k = ast.dump(n) if isinstance(n, ast.expr) else str(id(n))
                    if k not in seen:
                        seen.add(k)
                        out.append(n)
        return out or [node]

    def free(self, e: ast.expr, at_stmt: ast.stmt) -> List[ast.expr]:
        """alternatives of an expression of a NESTED function: its free variables resolved in this (the enclosing)
        function at the nested def statement"""
        ids = self.g.nodes_for(at_stmt)
        if not ids:
            return [e]
        return self.alts_at_node(e, ids[0])

    def alts_at_node(self, e: ast.expr, at: int) -> List[ast.expr]:
        return self.alts(e, at)


def split_ifexp(e: ast.expr, cap: int = 16) -> List[ast.expr]:
    """`a if c else b` anywhere in `e` (outside lambdas / comprehensions) -> one expression per arm"""
    todo, done = [e], []
    while todo:
        cur = todo.pop()
        hit = None
        stack = [cur]
        while stack and hit is None:
            n = stack.pop()
            if isinstance(n, ast.IfExp):
                hit = n
                break
            if isinstance(n, (ast.Lambda, ast.ListComp, ast.SetComp, ast.GeneratorExp, ast.DictComp)):
                continue
            stack.extend(ast.iter_child_nodes(n))
        if hit is None or len(done) + len(todo) >= cap:
            done.append(cur)
            continue
        for arm in (hit.body, hit.orelse):
            a2 = copy.copy(arm)
            a2._nd_orig = orig(arm)
            a2._nd_from = orig(hit)
            todo.append(_Replace(hit, a2).visit(cur))
    done.reverse()
    return done


class _Replace(ast.NodeTransformer):
    def __init__(self, old, new):
        self.old, self.new = old, new

    def visit(self, node):
        if node is self.old:
            return self.new
        if not any(x is self.old for x in ast.walk(node)):
            return node
        new = type(node).__new__(type(node))
        new.__dict__.update(node.__dict__)
        new._nd_orig = orig(node)
        for fld, old in ast.iter_fields(node):
            if isinstance(old, list):
                setattr(new, fld, [self.visit(x) if isinstance(x, ast.AST) else x for x in old])
            elif isinstance(old, ast.AST):
                setattr(new, fld, self.visit(old))
        return new


def _conj(t: ast.expr, pol: bool) -> List[Tuple[ast.expr, bool]]:
    """(expr, polarity) conjuncts; `is not` / `!=` / `not in` normalised to the positive operator"""
    if isinstance(t, ast.UnaryOp) and isinstance(t.op, ast.Not):
        return _conj(t.operand, not pol)
    if isinstance(t, ast.BoolOp) and ((isinstance(t.op, ast.And) and pol) or (isinstance(t.op, ast.Or) and not pol)):
        out = []
        for v in t.values:
            out.extend(_conj(v, pol))
        return out
    if isinstance(t, ast.Compare) and len(t.ops) == 1:
        flip = {ast.IsNot: ast.Is, ast.NotEq: ast.Eq, ast.NotIn: ast.In}
        for neg, pos in flip.items():
            if isinstance(t.ops[0], neg):
                t2 = ast.Compare(left=t.left, ops=[pos()], comparators=t.comparators)
                t2._nd_orig = orig(t)
                return [(t2, not pol)]
    return [(t, pol)]


conj = _conj


# ---------------------------------------------------------------------- matching on (substituted) expressions
def walk(e: ast.AST) -> Iterable[ast.AST]:
    return ast.walk(e)


def getattr_norm(e: ast.AST) -> Optional[Tuple[ast.expr, str]]:
    """(base, attribute name) for `base.attr`, `object.__getattribute__(base, "attr")`, `getattr(base, "attr"[, d])`"""
    if isinstance(e, ast.Attribute):
        return e.value, e.attr
    if isinstance(e, ast.Call) and not e.keywords and len(e.args) >= 2 and isinstance(e.args[1], ast.Constant) \
            and isinstance(e.args[1].value, str):
        d = dotted(e.func)
        if d in ("object.__getattribute__", "getattr"):
            return e.args[0], e.args[1].value
    return None


def attr_reads(e: ast.AST) -> List[Tuple[ast.expr, str]]:
    out = []
    for n in ast.walk(e):
        r = getattr_norm(n)
        if r is not None:
            out.append(r)
    return out


def has_attr(e: ast.AST, *names: str) -> bool:
    return any(a in names for _, a in attr_reads(e))


def has_name(e: ast.AST, *names: str) -> bool:
    return any(isinstance(n, ast.Name) and n.id in names for n in ast.walk(e))


def contains_orig(e: ast.AST, node: ast.AST) -> bool:
    """is (a copy of) `node` part of `e`"""
    return any(orig(n) is node for n in ast.walk(e))


def base_chain(e: ast.expr) -> Tuple[ast.expr, List[str]]:
    """root expression and the access path (attribute names, `[]`, `()`) leading from it to `e`"""
    path: List[str] = []
    while True:
        r = getattr_norm(e)
        if r is not None:
            path.append("." + r[1])
            e = r[0]
        elif isinstance(e, ast.Subscript):
            path.append("[" + unparse(e.slice) + "]")
            e = e.value
        elif is_pseudo(e) and e.args:
            path.append("<" + e.func.id + ">")
            e = e.args[0]
        elif isinstance(e, ast.Call) and isinstance(e.func, (ast.Attribute,)) and not is_pseudo(e):
            path.append("()")
            e = e.func
        else:
            break
    path.reverse()
    return e, path


def root_name(e: ast.expr) -> Optional[str]:
    r, _ = base_chain(e)
    return r.id if isinstance(r, ast.Name) else None


def loc(f, node=None) -> str:
    ln = getattr(orig(node), "lineno", None) if node is not None else None
    if ln is None and node is not None:
        for n in ast.walk(node):
            ln = getattr(orig(n), "lineno", None)
            if ln is not None:
                break
    if ln is None:
        return f.loc
    return f"{f.module.path}:{ln}"


def normal_succ(g, n: int) -> List[int]:
    return [b for b, lab in g.succ[n] if lab != "exc"]


def nodes_with(g, pred: Callable[[ast.AST], bool], kinds=("stmt", "test", "for", "with_enter")) -> List[int]:
    """CFG nodes (original, not finally copies) whose own expressions contain a node satisfying pred"""
    out = []
    for n in g.nodes:
        if n.stmt is None or n.kind not in kinds or n.copy:
            continue
        st = n.stmt
        parts = own_exprs(st) if isinstance(st, ast.stmt) else []
        hit = False
        for p in parts:
            for x in ast.walk(p):
                if isinstance(x, ScopeNode) and x is not p:
                    continue
                if pred(x):
                    hit = True
                    break
            if hit:
                break
        if hit:
            out.append(n.id)
    return out


def nested_defs(fn: ast.AST) -> List[ast.FunctionDef]:
    """function definitions directly nested in `fn` (any block depth, not inside further defs), source order"""
    out = []

    def go(body):
        for st in body:
            if isinstance(st, (ast.FunctionDef, ast.AsyncFunctionDef)):
                out.append(st)
                continue
            if isinstance(st, ast.ClassDef):
                continue
            for fld in ("body", "orelse", "finalbody"):
                sub = getattr(st, fld, None)
                if isinstance(sub, list) and sub and isinstance(sub[0], ast.stmt):
                    go(sub)
            if isinstance(st, ast.Try):
                for h in st.handlers:
                    go(h.body)
            if isinstance(st, ast.Match):
                for c in st.cases:
                    go(c.body)
    go(fn.body)
    return out


def local_names(fn: ast.AST) -> Set[str]:
    """names bound in the scope of `fn` itself (parameters, assignment / loop / with / except / import targets,
    nested def names, walrus); comprehension variables are not function locals"""
    out = set(fn_params(fn))
    stack = list(fn.body)
    while stack:
        n = stack.pop()
        if isinstance(n, (ast.FunctionDef, ast.AsyncFunctionDef, ast.ClassDef)):
            out.add(n.name)
            continue
        if isinstance(n, ast.Lambda):
            continue
        if isinstance(n, (ast.ListComp, ast.SetComp, ast.GeneratorExp, ast.DictComp)):
            # only walrus targets leak; ignore the comprehension's own variables
            for x in ast.walk(n):
                if isinstance(x, ast.NamedExpr) and isinstance(x.target, ast.Name):
                    out.add(x.target.id)
            continue
        if isinstance(n, ast.Name) and isinstance(n.ctx, (ast.Store, ast.Del)):
            out.add(n.id)
        elif isinstance(n, ast.ExceptHandler) and n.name:
            out.add(n.name)
        elif isinstance(n, (ast.Import, ast.ImportFrom)):
            for al in n.names:
                out.add((al.asname or al.name).split(".")[0])
        stack.extend(ast.iter_child_nodes(n))
    return out


def free_reads(fn: ast.AST) -> List[ast.Name]:
    """Name loads inside nested function `fn` (incl. its own nested scopes) that are not bound in `fn`"""
    mine = local_names(fn)
    out = []

    def go(n, bound: frozenset):
        if isinstance(n, (ast.FunctionDef, ast.AsyncFunctionDef)) and n is not fn:
            b = bound | frozenset(local_names(n))
            for ch in n.body:
                go(ch, b)
            return
        if isinstance(n, ast.Lambda):
            go(n.body, bound | frozenset(fn_params(n)))
            return
        if isinstance(n, (ast.ListComp, ast.SetComp, ast.GeneratorExp, ast.DictComp)):
            b = set(bound)
            for g in n.generators:
                go(g.iter, frozenset(b))
                for leaf, _ in _flatten(g.target):
                    if isinstance(leaf, ast.Name):
                        b.add(leaf.id)
                for x in g.ifs:
                    go(x, frozenset(b))
            fb = frozenset(b)
            for p in ("elt", "key", "value"):
                if hasattr(n, p):
                    go(getattr(n, p), fb)
            return
        if isinstance(n, ast.Name) and isinstance(n.ctx, ast.Load) and n.id not in bound:
            out.append(n)
        for ch in ast.iter_child_nodes(n):
            go(ch, bound)
    for st in fn.body:
        go(st, frozenset(mine))
    return out


def bind_args(call: ast.Call, fnode, skip_self: bool = True) -> Optional[Dict[str, ast.expr]]:
    """{parameter: argument expression}; None when the call does not fit / uses * or **"""
    a = fnode.args
    if any(isinstance(x, ast.Starred) for x in call.args) or any(k.arg is None for k in call.keywords):
        return None
    pos = [x.arg for x in a.posonlyargs + a.args]
    if skip_self and pos:
        pos = pos[1:]
    if len(call.args) > len(pos) and not a.vararg:
        return None
    out: Dict[str, ast.expr] = {}
    for p, v in zip(pos, call.args):
        out[p] = v
    allowed = set(pos) | {x.arg for x in a.kwonlyargs}
    for k in call.keywords:
        if k.arg not in allowed and not a.kwarg:
            return None
        out[k.arg] = k.value
    return out


def param_defaults(fnode) -> Dict[str, ast.expr]:
    a = fnode.args
    pos = a.posonlyargs + a.args
    out = {}
    for p, d in zip(pos[len(pos) - len(a.defaults):], a.defaults):
        out[p.arg] = d
    for p, d in zip(a.kwonlyargs, a.kw_defaults):
        if d is not None:
            out[p.arg] = d
    return out


# ---------------------------------------------------------------------- small shared pieces (c42)
def get_sub(ctx, f) -> Sub:
    cache = ctx.__dict__.setdefault("_na_d_sub", {})
    node = f.node if hasattr(f, "node") else f
    if id(node) not in cache:
        cache[id(node)] = Sub(ctx, f)
        if hasattr(f, "key"):
            ctx.functions_analysed.add(f.key)
    return cache[id(node)]


def top_attr(e: ast.AST) -> Optional[str]:
    r = getattr_norm(e)
    return r[1] if r is not None else None


def is_attr_of(e: ast.AST, attr: str, root: Optional[str] = None) -> bool:
    """`<root>.<attr>` (root None: any base)"""
    r = getattr_norm(e)
    if r is None or r[1] != attr:
        return False
    return root is None or (isinstance(r[0], ast.Name) and r[0].id == root)


def is_none_const(e) -> bool:
    return isinstance(e, ast.Constant) and e.value is None


def none_test(t: ast.AST) -> Optional[ast.expr]:
    """X for the (normalised) atom `X is None`"""
    if isinstance(t, ast.Compare) and len(t.ops) == 1 and isinstance(t.ops[0], ast.Is) and is_none_const(t.comparators[0]):
        return t.left
    return None


def callee_last(c: ast.Call) -> str:
    return _callee_last(c)


def returns_in(fnode) -> List[ast.Return]:
    out = []
    stack = list(fnode.body)
    while stack:
        n = stack.pop()
        if isinstance(n, (ast.FunctionDef, ast.AsyncFunctionDef, ast.ClassDef, ast.Lambda)):
            continue
        if isinstance(n, ast.Return):
            out.append(n)
        stack.extend(ast.iter_child_nodes(n))
    out.sort(key=lambda r: (r.lineno, r.col_offset))
    return out


def guard_atoms_at(S: Sub, at: int) -> List[Tuple[List[ast.expr], bool, ast.AST]]:
    """[(alternatives of the atom evaluated at its own test, polarity, atom)] dominating CFG node `at`"""
    out = []
    for t, pol in S.guards(at):
        tn = S.node_of(t)
        out.append((S.alts(t, tn) if tn is not None else [t], pol, t))
    return out
