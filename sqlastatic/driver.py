"""./check driver: `./check Cnn [--tier quick|thorough] [--replay file]`."""

from __future__ import annotations

import argparse
import importlib
import json
import os
import sys
import time
import traceback

from .errors import AnalysisError
from .index import Index
from .report import (
    VERIF_DIR,
    Ctx,
    MutantNotApplicable,
    Registry,
    load_known_findings,
    replay_path,
    run_property,
    write_evidence,
)


def load_registry(prop: str) -> Registry:
    mod = importlib.import_module(f"sqlastatic.rules.{prop.lower()}")
    return mod.R


def analyse(reg: Registry, tier: str, seed: int, index=None):
    ctx = Ctx(reg.prop, tier, index=index, seed=seed)
    per_rule = run_property(reg, ctx)
    known, _fixed = load_known_findings()
    new, hit = [], []
    for i in ctx.instances:
        if i.verdict != "violation":
            continue
        k = (reg.prop, i.rule, i.key)
        if k in known:
            hit.append(k)
        else:
            new.append(i)
    return ctx, per_rule, new, hit, known


# ---------------------------------------------------------------------- self test (E10)
class PatchMutant:
    """A stored patch used as a self-test input: `seeded/<P>_<k>/patch.diff` (must fire one of the rules
    recorded in its meta.json) or `benign/*.diff` (behaviour-preserving refactor: must stay silent)."""

    def __init__(self, name, path, expect):
        self.name = name
        self.path = path
        self.expect = expect  # None (benign) | tuple of rule ids, any of which must fire
        self.relpath = None


def patch_mutants(prop: str, consulted=None):
    """Seeded patches whose recorded detecting rule belongs to `prop`, and stored benign refactors that
    touch a module this property's rules consulted on the unchanged tree."""
    import glob
    import re
    out = []
    for mp in sorted(glob.glob(os.path.join(VERIF_DIR, "seeded", "*", "meta.json"))):
        try:
            with open(mp) as f:
                meta = json.load(f)
        except Exception:
            continue
        det = meta.get("detection", {})
        if not str(det.get("status", "")).startswith("caught"):
            continue
        rules = tuple(sorted(set(re.findall(r"C\d+-R\d+", " ".join(str(det.get(k, "")) for k in ("rule", "key", "message"))))))
        mine = tuple(r for r in rules if r.startswith(prop + "-"))
        if not mine:
            continue
        d = os.path.dirname(mp)
        out.append(PatchMutant("seed:" + os.path.basename(d), os.path.join(d, "patch.diff"), mine))
    for bp in sorted(glob.glob(os.path.join(VERIF_DIR, "benign", "*.diff"))):
        if consulted is not None:
            try:
                from .patchutil import parse
                with open(bp, encoding="utf-8") as f:
                    touched = {p[len("lib/sqlalchemy/"):] for p in parse(f.read()) if p.startswith("lib/sqlalchemy/")}
            except Exception:
                touched = set()
            if not (touched & set(consulted)):
                continue
        out.append(PatchMutant("benign:" + os.path.basename(bp)[:-5], bp, None))
    return out


_PATCH_MUTANTS: list = []


def _run_mutant(args):
    prop, idx, root = args
    try:
        reg = load_registry(prop)
        if idx >= len(reg.mutants):
            m = _PATCH_MUTANTS[idx - len(reg.mutants)]
            from .patchutil import PatchDoesNotApply, overlay_for
            try:
                ov = overlay_for(m.path, root)
            except (PatchDoesNotApply, OSError) as e:
                return (m.name, m.expect, "skipped", f"stored patch does not apply to this tree: {e}")
            for rel, new_src in ov.items():
                try:
                    compile(new_src, rel, "exec")
                except SyntaxError as e:
                    return (m.name, m.expect, "error", f"patched {rel} does not compile: {e}")
            if _BASE_INDEX is not None and _BASE_INDEX.root == root:
                index = _BASE_INDEX
                index.apply_overlay(ov)
            else:
                index = Index(root, overlay=ov)
            return _judge(reg, m, index)
        m = reg.mutants[idx]
        path = os.path.join(root, "lib", "sqlalchemy", m.relpath)
        with open(path, encoding="utf-8") as f:
            src = f.read()
        try:
            new_src = m.edit(src)
        except MutantNotApplicable as e:
            return (m.name, m.expect, "skipped", str(e))
        if new_src == src:
            return (m.name, m.expect, "skipped", "edit is a no-op")
        try:
            compile(new_src, path, "exec")
        except SyntaxError as e:
            return (m.name, m.expect, "error", f"mutant does not compile: {e}")
        if _BASE_INDEX is not None and _BASE_INDEX.root == root:
            index = _BASE_INDEX  # forked copy; this worker handles exactly one task
            index.apply_overlay({m.relpath: new_src})
        else:
            index = Index(root, overlay={m.relpath: new_src})
        return _judge(reg, m, index)
    except Exception as e:  # pragma: no cover
        return (f"#{idx}", None, "error", traceback.format_exc()[-600:])


def _judge(reg, m, index):
    if True:
        expects = m.expect if isinstance(m.expect, tuple) else ((m.expect,) if m.expect else ())
        label = "|".join(expects) if expects else None
        try:
            ctx, per_rule, new, hit, known = analyse(reg, "quick", 0, index=index)
        except AnalysisError as e:
            if not expects:
                return (m.name, None, "noisy", f"ANALYSIS-ERROR on benign refactor: {e}")
            # a mutant that blinds the rule is detected fail-closed (exit 2), acceptable but reported
            return (m.name, label, "fail-closed", str(e)[:200])
        new = [i for i in new if (i.rule, i.key) not in _BASELINE_KEYS]
        fired = sorted({i.rule for i in new})
        rerr = getattr(ctx, "rule_errors", {}) or {}
        if rerr and not (set(expects) & set(fired)):
            first = sorted(rerr.values())[0][:200]
            if not expects:
                return (m.name, None, "noisy", f"ANALYSIS-ERROR on benign refactor: {first}")
            if not new or set(expects) & set(rerr):
                return (m.name, label, "fail-closed", first)
        if not expects:
            if new:
                return (m.name, None, "noisy", "; ".join(f"{i.rule} {i.key}: {i.detail}" for i in new)[:400])
            return (m.name, None, "silent", "")
        if set(expects) & set(fired):
            return (m.name, label, "fired", "; ".join(f"{i.rule} {i.key}" for i in new if i.rule in expects)[:300])
        return (m.name, label, "missed", f"fired={fired}")


_BASE_INDEX = None
_BASELINE_KEYS: set = set()


def _child(conn, arg):
    try:
        import resource

        lim = int(os.environ.get("VERIF_MUTANT_MEM_GB", "16")) << 30
        try:
            resource.setrlimit(resource.RLIMIT_AS, (lim, lim))
        except Exception:
            pass
        out = _run_mutant(arg)
    except BaseException:  # pragma: no cover
        out = (f"#{arg[1]}", None, "error", traceback.format_exc()[-600:])
    try:
        conn.send(out)
    finally:
        conn.close()
        os._exit(0)


def _run_isolated(args, jobs, timeout):
    """One forked process per self-test input (copy-on-write view of the parsed tree), at most `jobs` at a time.
    Unlike Pool.map a worker that dies (OOM kill, crash) or overruns `timeout` seconds yields an 'error' result
    for that input instead of hanging the whole self-test."""
    import multiprocessing as mp
    from multiprocessing.connection import wait

    ctx = mp.get_context("fork")
    pending = list(enumerate(args))
    running = {}
    results = [None] * len(args)
    while pending or running:
        while pending and len(running) < jobs:
            i, a = pending.pop(0)
            r, w = ctx.Pipe(duplex=False)
            proc = ctx.Process(target=_child, args=(w, a))
            proc.start()
            w.close()
            running[i] = (proc, r, time.time())
        wait([r for (_p, r, _t) in running.values()], timeout=1.0)
        for i, (proc, r, t0) in list(running.items()):
            done = None
            if r.poll():
                try:
                    done = r.recv()
                except (EOFError, OSError):
                    proc.join(5)
                    done = (f"#{i}", None, "error", f"self-test worker died (exit code {proc.exitcode})")
            elif not proc.is_alive():
                # the child may have sent its result and exited between the poll above and this test
                if r.poll(0.2):
                    try:
                        done = r.recv()
                    except (EOFError, OSError):
                        done = None
                if done is None:
                    done = (f"#{i}", None, "error", f"self-test worker died (exit code {proc.exitcode})")
            elif time.time() - t0 > timeout:
                proc.kill()
                done = (f"#{i}", None, "error", f"self-test worker exceeded {timeout}s")
            if done is not None:
                results[i] = done
                r.close()
                proc.join(5)
                del running[i]
    return results


def selftest(reg: Registry, root: str, jobs: int = int(os.environ.get("VERIF_JOBS", "8")), baseline_new=(), consulted=None):
    """Mutants/benign refactors are judged relative to the baseline run: a mutant must add a
    violation (rule, key) that the unchanged tree does not have; a benign refactor must add none."""
    import multiprocessing as mp

    global _BASE_INDEX, _BASELINE_KEYS, _PATCH_MUTANTS
    _PATCH_MUTANTS = patch_mutants(reg.prop, consulted)
    if not reg.mutants and not _PATCH_MUTANTS:
        return {"mutants_total": 0}, True, []
    _BASE_INDEX = Index(root)
    import gc
    gc.freeze()  # keep the parsed trees out of the children's GC passes (less copy-on-write)
    _BASELINE_KEYS = {(i.rule, i.key) for i in baseline_new}
    args = [(reg.prop, i, root) for i in range(len(reg.mutants) + len(_PATCH_MUTANTS))]
    res = _run_isolated(args, min(jobs, len(args)), int(os.environ.get("VERIF_MUTANT_TIMEOUT", "1800")))
    _BASE_INDEX = None
    breaking = [r for r in res if r[1] is not None]
    benign = [r for r in res if r[1] is None and r[2] != "error"]
    summary = {
        "mutants_total": len(breaking),
        "mutants_fired": sum(1 for r in breaking if r[2] == "fired"),
        "mutants_fail_closed": sum(1 for r in breaking if r[2] == "fail-closed"),
        "mutants_skipped": sum(1 for r in res if r[2] == "skipped"),
        "seeded_patches_total": sum(1 for r in res if str(r[0]).startswith("seed:")),
        "seeded_patches_fired": sum(1 for r in res if str(r[0]).startswith("seed:") and r[2] == "fired"),
        "benign_patches_total": sum(1 for r in res if str(r[0]).startswith("benign:")),
        "benign_patches_silent": sum(1 for r in res if str(r[0]).startswith("benign:") and r[2] == "silent"),
        "benign_total": len(benign),
        "benign_silent": sum(1 for r in benign if r[2] == "silent"),
        "selftest_results": [
            {"name": r[0], "expect": r[1], "status": r[2], "detail": r[3]} for r in res
        ],
    }
    bad = [r for r in res if r[2] in ("missed", "noisy", "error")]
    return summary, not bad, bad


# ---------------------------------------------------------------------- main
def main(argv=None):
    ap = argparse.ArgumentParser()
    ap.add_argument("prop")
    ap.add_argument("--tier", default=os.environ.get("VERIF_TIER") or "quick", choices=["quick", "thorough"])
    ap.add_argument("--replay", default=None)
    ap.add_argument("--selftest-only", action="store_true")
    ap.add_argument("--evidence", default=None)
    a = ap.parse_args(argv)
    prop = a.prop.upper()
    try:
        seed = int(os.environ.get("VERIF_SEED", "0") or 0)
    except ValueError:
        seed = 0
    t0 = time.time()
    evidence = a.evidence or os.path.join(VERIF_DIR, "evidence", f"{prop}.json")
    try:
        reg = load_registry(prop)
    except ModuleNotFoundError:
        print(f"ANALYSIS-ERROR property={prop} no rules module (property is not claimed)")
        return 2
    try:
        ctx, per_rule, new, hit, known = analyse(reg, a.tier, seed)
    except AnalysisError as e:
        print(f"ANALYSIS-ERROR property={prop} {e}")
        _error_evidence(evidence, reg, a.tier, seed, str(e), time.time() - t0)
        return 2
    except Exception:
        tb = traceback.format_exc()
        print(f"ANALYSIS-ERROR property={prop} internal error in checker:\n{tb}")
        _error_evidence(evidence, reg, a.tier, seed, tb[-800:], time.time() - t0)
        return 2

    extra = {}
    st_ok = True
    if a.tier == "thorough" or a.selftest_only:
        summary, st_ok, bad = selftest(reg, ctx.index.root, baseline_new=new, consulted={k.split("::")[0] for k in ctx.functions_analysed})
        extra.update(summary)
        for r in bad:
            print(f"SELFTEST-FAIL property={prop} mutant={r[0]} expect={r[1]} status={r[2]} {r[3]}")

    if a.replay:
        with open(a.replay) as f:
            rp = json.load(f)
        still = [i for i in ctx.instances if i.verdict == "violation" and i.rule == rp.get("rule") and i.key == rp.get("key")]
        if still:
            i = still[0]
            print(f"REPLAY: {i.rule} {i.key} still violates: {i.detail} ({i.loc})")
            for s in i.path or []:
                print("    " + s)
            print(f"VIOLATION property={prop} replay={a.replay}")
            return 1
        print(f"REPLAY: {rp.get('rule')} {rp.get('key')} no longer violates")
        return 0

    for k in sorted(set(hit)):
        kv = known[k]
        print(f"KNOWN-FINDING: property={prop} {k[1]} {k[2]} -- {kv.get('text','')}")
    stale = [k for k in known if k[0] == prop and k not in set(hit)]
    for k in sorted(stale):
        print(f"NOTE: listed finding no longer observed: {k[1]} {k[2]}")
    for i in new:
        rp = replay_path(prop, i)
        print(f"{i.rule} {i.key}: {i.detail}" + (f" [{i.loc}]" if i.loc else ""))
        for s in i.path or []:
            print("    " + s)
        print(f"VIOLATION property={prop} replay={rp}")
    rule_errors = getattr(ctx, "rule_errors", {}) or {}
    for rid, msg in sorted(rule_errors.items()):
        print(f"ANALYSIS-ERROR property={prop} {msg}")
    wall = time.time() - t0
    if rule_errors:
        extra["rules_undecided"] = sorted(rule_errors)
    write_evidence(evidence, reg, ctx, per_rule, wall, new, hit, extra)
    n_inst = sum(v["instances"] for v in per_rule.values())
    print(
        f"{prop}: {len(per_rule)} rules, {n_inst} instances, {len(ctx.functions_analysed)} functions, "
        f"{len(new)} new violation(s), {len(set(hit))} known finding(s), {wall:.2f}s [{a.tier}]"
    )
    if new:
        return 1
    if rule_errors:
        return 2
    if not st_ok:
        print(f"ANALYSIS-ERROR property={prop} self-test battery failed (machinery broken)")
        return 2
    return 0


def _error_evidence(path, reg, tier, seed, msg, wall):
    try:
        os.makedirs(os.path.dirname(path), exist_ok=True)
        with open(path, "w") as f:
            json.dump(
                {
                    "property_id": reg.prop,
                    "tier": tier,
                    "seed": seed,
                    "level": "other",
                    "coverage": {"explanation": "ANALYSIS-ERROR: the check could not decide: " + msg},
                    "wall_s": round(wall, 3),
                    "violations": 0,
                },
                f,
                indent=1,
            )
    except Exception:
        pass


if __name__ == "__main__":
    sys.exit(main())
