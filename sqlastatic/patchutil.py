"""Minimal unified-diff applier (no fuzz, offset search) used by the self-test to turn a stored patch
(`seeded/*/patch.diff`, `benign/*.diff`) into a source overlay {relpath under lib/sqlalchemy: new source}.
Nothing is written to /repo; the patched text only exists in the analysing process."""

from __future__ import annotations

import os
import re
from typing import Dict, List, Tuple


class PatchDoesNotApply(Exception):
    pass


_HUNK = re.compile(r"^@@ -(\d+)(?:,(\d+))? \+(\d+)(?:,(\d+))? @@")


def parse(diff_text: str) -> Dict[str, List[Tuple[int, List[str]]]]:
    """{path (b/ side, repo relative): [(old_start, [hunk lines incl. ' ', '+', '-' prefix])]}"""
    files: Dict[str, List[Tuple[int, List[str]]]] = {}
    cur = None
    hunk = None
    for line in diff_text.split("\n"):
        if line.startswith("diff --git "):
            cur = None
            hunk = None
            continue
        if line.startswith("+++ "):
            p = line[4:].strip()
            if p.startswith("b/"):
                p = p[2:]
            cur = p
            files.setdefault(cur, [])
            hunk = None
            continue
        if line.startswith("--- "):
            continue
        m = _HUNK.match(line)
        if m and cur is not None:
            hunk = (int(m.group(1)), [])
            files[cur].append(hunk)
            continue
        if hunk is not None and cur is not None:
            if line.startswith((" ", "+", "-")):
                hunk[1].append(line)
            elif line == "":
                # a blank context line that lost its leading space, or the trailing split artefact
                hunk[1].append(" ")
            elif line.startswith("\\"):
                continue
            else:
                hunk = None
    return files


def apply_to_text(src: str, hunks: List[Tuple[int, List[str]]], path: str = "") -> str:
    lines = src.split("\n")
    offset = 0
    for old_start, hl in hunks:
        # strip trailing artefact blank context lines that do not match
        old = [h[1:] for h in hl if h[:1] in (" ", "-")]
        new = [h[1:] for h in hl if h[:1] in (" ", "+")]
        while old and new and old[-1] == "" and new[-1] == "" and hl and hl[-1] == " ":
            # keep at most the genuine context; try to apply with and without the artefact below
            break
        def find(old_block):
            guess = old_start - 1 + offset
            for delta in sorted(range(-400, 401), key=abs):
                i = guess + delta
                if i < 0 or i + len(old_block) > len(lines):
                    continue
                if lines[i:i + len(old_block)] == old_block:
                    return i
            return None
        pos = find(old)
        if pos is None and old and old[-1] == "" and new and new[-1] == "":
            old2, new2 = old[:-1], new[:-1]
            pos = find(old2)
            if pos is not None:
                old, new = old2, new2
        if pos is None:
            raise PatchDoesNotApply(f"hunk @@ -{old_start} of {path} does not apply")
        lines[pos:pos + len(old)] = new
        offset += len(new) - len(old)
    return "\n".join(lines)


def overlay_for(diff_path: str, root: str) -> Dict[str, str]:
    """Overlay for Index(root, overlay=...): keys are paths relative to lib/sqlalchemy."""
    with open(diff_path, encoding="utf-8") as f:
        files = parse(f.read())
    out: Dict[str, str] = {}
    for p, hunks in files.items():
        if not p.startswith("lib/sqlalchemy/") or not p.endswith(".py"):
            continue
        full = os.path.join(root, p)
        if not os.path.exists(full):
            raise PatchDoesNotApply(f"{p} does not exist")
        with open(full, encoding="utf-8") as f:
            src = f.read()
        out[p[len("lib/sqlalchemy/"):]] = apply_to_text(src, hunks, p)
    if not out:
        raise PatchDoesNotApply("patch touches no lib/sqlalchemy/*.py file")
    return out
