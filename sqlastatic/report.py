"""E7/E8/E9 -- rule registry, instance bookkeeping, evidence, known findings."""

from __future__ import annotations

import ast
import hashlib
import json
import os
import time
from typing import Any, Callable, Dict, List, Optional

from .cfg import CFG, count_paths
from .errors import AnalysisError, AnchorMissing
from .evalx import Evaluator
from .index import FuncInfo, Index

VERIF_DIR = os.path.dirname(os.path.dirname(os.path.abspath(__file__)))
KNOWN_FINDINGS = os.path.join(VERIF_DIR, "known_findings.txt")


class Rule:
    def __init__(self, rid, fn, floor, template, desc):
        self.id = rid
        self.fn = fn
        self.floor = floor
        self.template = template
        self.desc = desc


class Registry:
    """Per rules-module registry: `R = Registry('C23')`, then `@R.rule('C23-R1', floor=2, ...)`."""

    def __init__(self, prop: str, title: str = "", decides: str = "", not_decided: str = ""):
        self.prop = prop
        self.title = title
        self.decides = decides
        self.not_decided = not_decided
        self.rules: List[Rule] = []
        self.mutants: List["Mutant"] = []

    def rule(self, rid: str, floor: int = 1, template: str = "", desc: str = ""):
        def deco(fn):
            self.rules.append(Rule(rid, fn, floor, template, desc or (fn.__doc__ or "").strip()))
            return fn
        return deco

    def mutant(self, name, relpath, edit, expect: Optional[str]):
        """expect = rule id that must fire (a VIOLATION whose rule id matches), or None for a
        benign refactor on which the whole property check must stay silent."""
        self.mutants.append(Mutant(name, relpath, edit, expect))


class Mutant:
    def __init__(self, name, relpath, edit, expect):
        self.name = name
        self.relpath = relpath
        self.edit = edit
        self.expect = expect


class MutantNotApplicable(Exception):
    pass


def sub(old: str, new: str, count: int = 1) -> Callable[[str], str]:
    """Source edit for self-test mutants: replace exactly `count` occurrences of `old`.
    (Only the *self-test inputs* are text based; the rules themselves never match text.)"""
    def edit(src: str) -> str:
        if src.count(old) != count:
            raise MutantNotApplicable(f"expected {count} occurrence(s) of {old!r}, found {src.count(old)}")
        return src.replace(old, new)
    return edit


def chain(*edits) -> Callable[[str], str]:
    def edit(src):
        for e in edits:
            src = e(src)
        return src
    return edit


class Instance:
    __slots__ = ("rule", "key", "verdict", "nontrivial", "detail", "loc", "path")

    def __init__(self, rule, key, verdict, nontrivial, detail, loc=None, path=None):
        self.rule = rule
        self.key = key
        self.verdict = verdict  # 'ok' | 'violation' | 'note'
        self.nontrivial = nontrivial
        self.detail = detail
        self.loc = loc
        self.path = path

    def as_dict(self):
        d = {"rule": self.rule, "key": self.key, "verdict": self.verdict}
        if self.detail:
            d["detail"] = self.detail
        if self.loc:
            d["loc"] = self.loc
        if self.path:
            d["path"] = self.path
        return d


class Ctx:
    def __init__(self, prop: str, tier: str = "quick", index: Optional[Index] = None, seed: int = 0):
        self.prop = prop
        self.tier = tier
        self.seed = seed
        self.index = index or Index()
        self.ev = Evaluator(self.index)
        self.instances: List[Instance] = []
        self.current_rule: Optional[str] = None
        self.functions_analysed: set = set()
        self.call_sites = 0
        self.cfg_nodes = 0
        self.cfg_edges = 0
        self.paths = 0
        self.notes: List[str] = []
        self._cfg_cache: Dict[Any, CFG] = {}
        self._noreturn_names: Optional[set] = None

    @property
    def thorough(self) -> bool:
        return self.tier == "thorough"

    # ---- instance recording
    def ok(self, key: str, detail: str = "", nontrivial: bool = True, rule: Optional[str] = None):
        self.instances.append(Instance(rule or self.current_rule, key, "ok", nontrivial, detail))

    def violation(self, key: str, msg: str, loc: Optional[str] = None, path=None, rule: Optional[str] = None):
        self.instances.append(Instance(rule or self.current_rule, key, "violation", True, msg, loc, path))

    def check(self, cond: bool, key: str, msg_bad: str, detail_ok: str = "", loc=None, path=None, nontrivial=True):
        if cond:
            self.ok(key, detail_ok, nontrivial)
        else:
            self.violation(key, msg_bad, loc, path)
        return cond

    def note(self, msg: str):
        self.notes.append(f"{self.current_rule}: {msg}")

    def error(self, msg: str):
        raise AnalysisError(f"{self.current_rule}: {msg}")

    def require(self, cond, msg: str):
        if not cond:
            raise AnalysisError(f"{self.current_rule}: {msg}")

    # ---- helpers
    def func(self, key: str) -> FuncInfo:
        f = self.index.func(key)
        self.functions_analysed.add(f.key)
        return f

    def method(self, cls_key: str, name: str) -> FuncInfo:
        """Method `name` resolved through the static MRO of class `cls_key`."""
        c = self.index.cls(cls_key)
        f = self.index.resolve_method(c, name)
        if f is None:
            raise AnchorMissing(f"{cls_key} has no method {name} in its MRO")
        self.functions_analysed.add(f.key)
        return f

    def noreturn_names(self) -> set:
        """Names of functions every definition of which is annotated `-> NoReturn`."""
        if self._noreturn_names is None:
            yes, no = set(), set()
            for m in self.index.modules.values():
                defs = [f for lst in m.all_defs.values() for f in lst]
                for c in self.index._all_classes(m):
                    defs.extend(f for lst in c.all_defs.values() for f in lst)
                for f in defs:
                    r = f.node.returns
                    txt = ast.unparse(r) if r is not None else ""
                    if txt in ("NoReturn", "typing.NoReturn", "Never", "'NoReturn'"):
                        yes.add(f.name)
                    else:
                        no.add(f.name)
            self._noreturn_names = yes - no
        return self._noreturn_names

    def cfg(self, f, **kw) -> CFG:
        """CFG of a FuncInfo or a raw function AST node (cached)."""
        node = f.node if isinstance(f, FuncInfo) else f
        k = (id(node), tuple(sorted(kw.items())) if kw else ())
        if k not in self._cfg_cache:
            nr = self.noreturn_names()

            def noreturn(call: ast.Call) -> bool:
                fn = call.func
                nm = fn.attr if isinstance(fn, ast.Attribute) else (fn.id if isinstance(fn, ast.Name) else None)
                return nm in nr

            g = CFG(node, noreturn=noreturn, **kw)
            self._cfg_cache[k] = g
            st = g.stats()
            self.cfg_nodes += st["nodes"]
            self.cfg_edges += st["edges"]
            self.paths += count_paths(g)
            if isinstance(f, FuncInfo):
                self.functions_analysed.add(f.key)
        return self._cfg_cache[k]


# ---------------------------------------------------------------------- known findings
def load_known_findings(path: str = KNOWN_FINDINGS):
    """Lines: `finding: property=C54 rule=C54-R1 key=<key> | text` and
    `fixed: property=C54 <commit> rule=.. key=.. | text` (fixed entries suppress nothing)."""
    known, fixed = {}, []
    if not os.path.exists(path):
        return known, fixed
    with open(path) as f:
        for line in f:
            line = line.strip()
            if not line or line.startswith("#"):
                continue
            head, _, text = line.partition("|")
            toks = head.split()
            kind = toks[0].rstrip(":")
            kv = {}
            keytoks = None
            for t in toks[1:]:
                if keytoks is not None:
                    keytoks.append(t)
                elif t.startswith("key="):
                    keytoks = [t[4:]]
                elif "=" in t:
                    a, b = t.split("=", 1)
                    kv[a] = b
            kv["key"] = " ".join(keytoks or [])
            kv["text"] = text.strip()
            if kind == "finding":
                known[(kv.get("property"), kv.get("rule"), kv["key"])] = kv
            elif kind == "fixed":
                fixed.append(kv)
    return known, fixed


# ---------------------------------------------------------------------- running
def run_property(reg: Registry, ctx: Ctx):
    """Run every rule of a registry; raises AnalysisError on floors / anchors."""
    per_rule = {}
    ctx.rule_errors = {}
    for r in reg.rules:
        ctx.current_rule = r.id
        before = len(ctx.instances)
        # every rule runs on its own: a rule that meets a shape it does not understand (AnalysisError) must
        # not hide the verdicts of the other rules of the property; the driver reports exit 1 if any rule
        # found an unlisted violation, else exit 2 if any rule could not decide
        try:
            r.fn(ctx)
            err = None
        except AnalysisError as e:
            err = str(e)
        except RecursionError:
            raise
        except Exception as e:  # a crash inside one rule is an analysis error of that rule
            import traceback
            err = "internal error in rule: " + traceback.format_exc()[-500:]
        mine = [i for i in ctx.instances[before:] if i.verdict != "note"]
        n = len(mine)
        if err is None and n < r.floor:
            err = (f"{r.id}: only {n} rule instance(s) found, floor is {r.floor} "
                   f"(an anchor moved or the rule went blind)")
        if err is not None:
            ctx.rule_errors[r.id] = err if err.startswith(r.id) else f"{r.id}: {err}"
        per_rule[r.id] = {
            "template": r.template,
            "instances": n,
            "floor": r.floor,
            "violations": sum(1 for i in mine if i.verdict == "violation"),
            "desc": r.desc,
        }
        if r.id in ctx.rule_errors:
            per_rule[r.id]["analysis_error"] = ctx.rule_errors[r.id][:300]
    ctx.current_rule = None
    return per_rule


def write_evidence(path, reg: Registry, ctx: Ctx, per_rule, wall, new_viol, known_hit, extra=None):
    insts = [i for i in ctx.instances if i.verdict != "note"]
    distinct_nt = len({(i.rule, i.key) for i in insts if i.nontrivial})
    samples = []
    seen_rules = {}
    for i in insts:
        c = seen_rules.get(i.rule, 0)
        if c < 3 or i.verdict == "violation":
            samples.append(i.as_dict())
            seen_rules[i.rule] = c + 1
    ev = {
        "property_id": reg.prop,
        "tier": ctx.tier,
        "seed": ctx.seed,
        "level": "other",
        "coverage": {
            "explanation": (
                f"Static analysis of /repo source (no execution). Decides: {reg.decides} "
                f"Does NOT decide: {reg.not_decided}"
            ),
            "evaluations": len(insts),
            "distinct_nontrivial": distinct_nt,
            "rule": (
                "one evaluation = one rule instance (rule id + construct key) extracted from the "
                "current source; non-trivial = the verdict needed a path query, a table relation, a "
                "truth table or a sibling comparison rather than an existence test; distinct by "
                "(rule, construct key)"
            ),
            "samples": samples[:60],
            "obligations": len(insts),
            "discharged": sum(1 for i in insts if i.verdict == "ok") + len(known_hit),
            "rules": per_rule,
            "functions_analysed": len(ctx.functions_analysed),
            "cfg_nodes": ctx.cfg_nodes,
            "cfg_edges": ctx.cfg_edges,
            "acyclic_paths_enumerated": ctx.paths,
            "files_parsed": len(ctx.index.modules),
            "files_consulted": sorted(ctx.index.consulted)[:80],
            "source_digest": ctx.index.digest(),
            "root": ctx.index.root,
            "known_findings_reported": sorted(f"{r} {k}" for (_, r, k) in known_hit),
            "new_violations": [i.as_dict() for i in new_viol],
            "notes": ctx.notes[:40],
            "exhaustive": False,
        },
        "assumptions": [
            "CPython ast parses the tree as the interpreter would",
            "method resolution by static C3 MRO / class-hierarchy analysis over lib/sqlalchemy",
            "oracle tables under /verif/oracles encode backend / Python / documented-API meaning",
            "exception edges: any statement containing a call may raise; `except Exception` is treated as catch-all",
        ],
        "wall_s": round(wall, 3),
        "violations": len(new_viol),
    }
    if extra:
        ev["coverage"].update(extra)
    os.makedirs(os.path.dirname(path), exist_ok=True)
    tmp = path + ".tmp"
    with open(tmp, "w") as f:
        json.dump(ev, f, indent=1, default=str)
    os.replace(tmp, path)


def replay_path(prop, inst: Instance) -> str:
    d = os.path.join(VERIF_DIR, "replays")
    os.makedirs(d, exist_ok=True)
    h = hashlib.sha1(f"{inst.rule}|{inst.key}".encode()).hexdigest()[:10]
    p = os.path.join(d, f"{prop}-{inst.rule}-{h}.json")
    with open(p, "w") as f:
        json.dump({"property": prop, **inst.as_dict()}, f, indent=1)
    return p
