"""E3 -- statement-level control-flow graph with exceptional edges and per-continuation
copies of `finally` bodies.

Node kinds: entry, exit (normal return / fall off the end), raise_exit (exception leaves the
function), stmt (simple statement), test (if/while condition), for (iteration step),
with_enter, with_exit (exceptional unwinding through a `with`), handler (except clause entry),
join (synthetic), match.

Edge labels: None (sequence), 'true' / 'false' (branch outcome; for `for`: body / exhausted),
'exc' (the source statement raised), 'loop' (back edge), 'case'.
"""

from __future__ import annotations

import ast
from collections import deque
from typing import Callable, Dict, Iterable, List, Optional, Sequence, Set, Tuple

from .astutil import FuncNode, ScopeNode, call_name, calls_in, dotted, own_exprs, unparse

CATCH_ALL = {"BaseException", "Exception"}


class Node:
    __slots__ = ("id", "kind", "stmt", "copy")

    def __init__(self, id, kind, stmt=None, copy=""):
        self.id = id
        self.kind = kind
        self.stmt = stmt
        self.copy = copy  # '' or the continuation kind of the finally copy it lives in

    @property
    def lineno(self):
        return getattr(self.stmt, "lineno", None)

    def describe(self) -> str:
        if self.stmt is None:
            return self.kind
        if self.kind in ("test",):
            txt = "if " + unparse(self.stmt.test)
        elif self.kind == "for":
            txt = "for " + unparse(self.stmt.target) + " in " + unparse(self.stmt.iter)
        elif self.kind in ("with_enter", "with_exit"):
            txt = self.kind + " " + ", ".join(unparse(i.context_expr) for i in self.stmt.items)
        elif self.kind == "handler":
            txt = "except " + (unparse(self.stmt.type) if self.stmt.type is not None else "")
        elif self.kind == "match":
            txt = "match " + unparse(self.stmt.subject)
        else:
            txt = unparse(self.stmt).split("\n")[0]
        if len(txt) > 100:
            txt = txt[:97] + "..."
        c = f"[finally:{self.copy}]" if self.copy else ""
        return f"L{self.lineno}{c} {txt}"

    def __repr__(self):
        return f"<N{self.id} {self.describe()}>"


class _Loop:
    def __init__(self, head):
        self.head = head
        self.back: Optional[int] = None
        self.breaks: List[Tuple[int, Optional[str]]] = []


class _TryExcept:
    def __init__(self):
        self.handlers: List[int] = []
        self.catch_all = False


class _Finally:
    def __init__(self, body, depth):
        self.body = body
        self.depth = depth  # number of outer frames
        self.copies: Dict[str, int] = {}


class _With:
    def __init__(self, stmt):
        self.stmt = stmt
        self.exit_node: Optional[int] = None


def default_may_raise(st: ast.AST) -> bool:
    if isinstance(st, (ast.Raise, ast.Assert)):
        return True
    for part in own_exprs(st) if isinstance(st, ast.stmt) else [st]:
        for n in ast.walk(part):
            if isinstance(n, (ast.Call, ast.Await)):
                return True
            if isinstance(n, (ast.Lambda,)):
                continue
    return False


class CFG:
    def __init__(
        self,
        fn: ast.AST,
        noreturn: Optional[Callable[[ast.Call], bool]] = None,
        may_raise: Callable[[ast.AST], bool] = default_may_raise,
        exception_is_catch_all: bool = True,
    ):
        self.fn = fn
        self.nodes: List[Node] = []
        self.succ: Dict[int, List[Tuple[int, Optional[str]]]] = {}
        self.pred: Dict[int, List[Tuple[int, Optional[str]]]] = {}
        self._noreturn = noreturn or (lambda c: False)
        self._may_raise = may_raise
        self._catch_all = set(CATCH_ALL) if exception_is_catch_all else {"BaseException"}
        self._cur_copy = ""
        self.entry = self._new("entry")
        self.exit = self._new("exit")
        self.raise_exit = self._new("raise_exit")
        body = fn.body if not isinstance(fn, list) else fn
        ends = self._seq(body, [(self.entry, None)], [])
        for e in ends:
            self._edge(e[0], self.exit, e[1])
        self._by_stmt: Dict[int, List[int]] = {}
        for n in self.nodes:
            if n.stmt is not None:
                self._by_stmt.setdefault(id(n.stmt), []).append(n.id)

    # ------------------------------------------------------------------ construction
    def _new(self, kind, stmt=None) -> int:
        n = Node(len(self.nodes), kind, stmt, self._cur_copy)
        self.nodes.append(n)
        self.succ[n.id] = []
        self.pred[n.id] = []
        return n.id

    def _edge(self, a, b, label=None):
        if (b, label) not in self.succ[a]:
            self.succ[a].append((b, label))
            self.pred[b].append((a, label))

    def _connect(self, preds, node):
        for p, lab in preds:
            self._edge(p, node, lab)

    def _seq(self, stmts, preds, frames):
        for st in stmts:
            if not preds:
                break  # unreachable code
            preds = self._stmt(st, preds, frames)
        return preds

    def _jump(self, kind, preds, frames):
        """Route `preds` outwards as continuation `kind` ('exc','return','break','continue')."""
        i = len(frames) - 1
        while i >= 0 and preds:
            fr = frames[i]
            if isinstance(fr, _Finally):
                key = kind
                if key not in fr.copies:
                    saved = self._cur_copy
                    self._cur_copy = kind
                    j = self._new("join")
                    fr.copies[key] = j
                    outer = frames[: fr.depth]
                    ends = self._seq(fr.body, [(j, None)], outer)
                    self._cur_copy = saved
                    self._connect(preds, j)
                    self._jump(kind, ends, outer)
                else:
                    self._connect(preds, fr.copies[key])
                return
            if isinstance(fr, _With) and kind == "exc":
                if fr.exit_node is None:
                    fr.exit_node = self._new("with_exit", fr.stmt)
                    self._connect(preds, fr.exit_node)
                    preds = [(fr.exit_node, "exc")]
                else:
                    self._connect(preds, fr.exit_node)
                    return
            elif isinstance(fr, _TryExcept) and kind == "exc":
                for h in fr.handlers:
                    for p, lab in preds:
                        self._edge(p, h, "exc")
                if fr.catch_all:
                    return
            elif isinstance(fr, _Loop) and kind in ("break", "continue"):
                if kind == "break":
                    fr.breaks.extend(preds)
                else:
                    self._loop_back(preds, fr)
                return
            i -= 1
        if not preds:
            return
        if kind == "exc":
            for p, lab in preds:
                self._edge(p, self.raise_exit, "exc" if lab is None else lab)
        elif kind == "return":
            self._connect(preds, self.exit)
        # break/continue outside loop: ignore

    def _loop_back(self, preds, loop):
        """Back edges go through one synthetic join node per loop so that the branch label of the
        last statement (`if c: ...` at the end of a loop body) is preserved on its own edge."""
        if not preds:
            return
        if loop.back is None:
            loop.back = self._new("join")
            self._edge(loop.back, loop.head, "loop")
        for p, lab in preds:
            self._edge(p, loop.back, lab)

    def _raise_edges(self, node, st, frames):
        if self._may_raise(st):
            self._jump("exc", [(node, "exc")], frames)

    def _is_noreturn_stmt(self, st) -> bool:
        if isinstance(st, ast.Expr) and isinstance(st.value, ast.Call):
            return self._noreturn(st.value)
        return False

    def _stmt(self, st, preds, frames):
        if isinstance(st, ast.If):
            t = self._new("test", st)
            self._connect(preds, t)
            self._raise_edges(t, st, frames)
            const = _const_truth(st.test)
            b = self._seq(st.body, [(t, "true")], frames) if const is not False else []
            if const is True:
                return b
            if st.orelse:
                o = self._seq(st.orelse, [(t, "false")], frames)
            else:
                o = [(t, "false")]
            return b + o
        if isinstance(st, ast.While):
            t = self._new("test", st)
            self._connect(preds, t)
            self._raise_edges(t, st, frames)
            loop = _Loop(t)
            b = self._seq(st.body, [(t, "true")], frames + [loop])
            self._loop_back(b, loop)
            out = []
            if _const_truth(st.test) is not True:
                if st.orelse:
                    out = self._seq(st.orelse, [(t, "false")], frames)
                else:
                    out = [(t, "false")]
            return out + loop.breaks
        if isinstance(st, (ast.For, ast.AsyncFor)):
            t = self._new("for", st)
            self._connect(preds, t)
            self._raise_edges(t, st, frames)
            loop = _Loop(t)
            b = self._seq(st.body, [(t, "true")], frames + [loop])
            self._loop_back(b, loop)
            if st.orelse:
                out = self._seq(st.orelse, [(t, "false")], frames)
            else:
                out = [(t, "false")]
            return out + loop.breaks
        if isinstance(st, (ast.With, ast.AsyncWith)):
            w = self._new("with_enter", st)
            self._connect(preds, w)
            self._raise_edges(w, st, frames)
            fr = _With(st)
            ends = self._seq(st.body, [(w, None)], frames + [fr])
            if any((call_name(i.context_expr) or "").endswith("safe_reraise") for i in st.items
                   if isinstance(i.context_expr, ast.Call)):
                # util.safe_reraise(): the block re-raises the exception being handled when it ends
                self._jump("exc", [(p, "exc") for p, _ in ends], frames)
                return []
            return ends
        if isinstance(st, ast.Try) or st.__class__.__name__ == "TryStar":
            inner = list(frames)
            fin = None
            if st.finalbody:
                fin = _Finally(st.finalbody, len(frames))
                inner = inner + [fin]
            te = None
            if st.handlers:
                te = _TryExcept()
                for h in st.handlers:
                    hn = self._new("handler", h)
                    te.handlers.append(hn)
                    if h.type is None:
                        te.catch_all = True
                    else:
                        names = [h.type] if not isinstance(h.type, ast.Tuple) else h.type.elts
                        for nmx in names:
                            d = dotted(nmx)
                            if d and d.split(".")[-1] in self._catch_all:
                                te.catch_all = True
            body_frames = inner + ([te] if te else [])
            ends = self._seq(st.body, preds, body_frames)
            if st.orelse:
                ends = self._seq(st.orelse, ends, inner)
            if te:
                for h, hn in zip(st.handlers, te.handlers):
                    ends = ends + self._seq(h.body, [(hn, None)], inner)
            if fin is not None:
                saved = self._cur_copy
                self._cur_copy = "normal" if not saved else saved
                j = self._new("join")
                self._connect(ends, j)
                ends = self._seq(st.finalbody, [(j, None)], frames)
                self._cur_copy = saved
            return ends
        if isinstance(st, ast.Match):
            mn = self._new("match", st)
            self._connect(preds, mn)
            self._raise_edges(mn, st, frames)
            out = []
            irrefutable = False
            for c in st.cases:
                out += self._seq(c.body, [(mn, "case")], frames)
                if isinstance(c.pattern, ast.MatchAs) and c.pattern.pattern is None and c.guard is None:
                    irrefutable = True
            if not irrefutable:
                out.append((mn, "false"))
            return out
        # simple statements
        n = self._new("stmt", st)
        self._connect(preds, n)
        if isinstance(st, ast.Return):
            self._raise_edges(n, st, frames)
            self._jump("return", [(n, None)], frames)
            return []
        if isinstance(st, ast.Raise):
            self._jump("exc", [(n, "exc")], frames)
            return []
        if isinstance(st, ast.Break):
            self._jump("break", [(n, None)], frames)
            return []
        if isinstance(st, ast.Continue):
            self._jump("continue", [(n, None)], frames)
            return []
        if isinstance(st, ScopeNode):
            return [(n, None)]
        self._raise_edges(n, st, frames)
        if self._is_noreturn_stmt(st):
            return []
        return [(n, None)]

    # ------------------------------------------------------------------ queries
    def node(self, i) -> Node:
        return self.nodes[i]

    def nodes_for(self, stmt: ast.AST) -> List[int]:
        """All CFG nodes (incl. finally copies) of a statement / If / With / handler node."""
        return list(self._by_stmt.get(id(stmt), []))

    def nodes_containing(self, expr: ast.AST) -> List[int]:
        """CFG nodes whose own expression part contains the AST node `expr` (identity)."""
        out = []
        for n in self.nodes:
            if n.stmt is None or n.kind == "with_exit":
                continue
            parts = own_exprs(n.stmt) if isinstance(n.stmt, ast.stmt) else (
                [n.stmt.type] if isinstance(n.stmt, ast.ExceptHandler) and n.stmt.type is not None else []
            )
            for part in parts:
                if any(x is expr for x in ast.walk(part)):
                    out.append(n.id)
                    break
        return out

    def find(self, pred: Callable[[Node], bool]) -> List[int]:
        return [n.id for n in self.nodes if pred(n)]

    def find_calls(self, *suffixes: str) -> List[int]:
        """Nodes whose own expression part calls a callee named (or ending with .) suffix."""
        out = []
        for n in self.nodes:
            if n.stmt is None or n.kind in ("with_exit", "handler", "join"):
                continue
            if not isinstance(n.stmt, ast.stmt):
                continue
            hit = False
            for part in own_exprs(n.stmt):
                for c in calls_in(part):
                    nm = call_name(c)
                    if nm and any(nm == s or nm.endswith("." + s) for s in suffixes):
                        hit = True
            if hit:
                out.append(n.id)
        return out

    def reachable(
        self,
        starts: Iterable[int],
        avoid: Iterable[int] = (),
        edge_ok: Optional[Callable[[int, int, Optional[str]], bool]] = None,
        include_starts=True,
    ) -> Set[int]:
        avoid = set(avoid)
        seen = set()
        dq = deque()
        for s in starts:
            if include_starts:
                if s in avoid:
                    continue
                seen.add(s)
            dq.append(s)
        while dq:
            a = dq.popleft()
            for b, lab in self.succ[a]:
                if b in seen or b in avoid:
                    continue
                if edge_ok is not None and not edge_ok(a, b, lab):
                    continue
                seen.add(b)
                dq.append(b)
        return seen

    def witness(
        self,
        starts: Iterable[int],
        targets: Iterable[int],
        avoid: Iterable[int] = (),
        edge_ok: Optional[Callable[[int, int, Optional[str]], bool]] = None,
        start_edge_ok: Optional[Callable[[int, int, Optional[str]], bool]] = None,
    ) -> Optional[List[int]]:
        """A path from some start to some target that avoids `avoid` (start nodes themselves are
        not tested against avoid), or None.  `start_edge_ok` restricts the first edge taken."""
        avoid = set(avoid)
        targets = set(targets)
        starts = list(starts)
        prev: Dict[int, Optional[int]] = {}
        dq = deque()
        for s in starts:
            dq.append(s)
        startset = set(starts)
        expanded_start = set()
        while dq:
            a = dq.popleft()
            is_start = a in startset and a not in expanded_start and a not in prev
            if is_start:
                expanded_start.add(a)
            for b, lab in self.succ[a]:
                if b in avoid:
                    continue
                if is_start and start_edge_ok is not None and not start_edge_ok(a, b, lab):
                    continue
                if edge_ok is not None and not edge_ok(a, b, lab):
                    continue
                if b in prev:
                    continue
                prev[b] = a
                if b in targets:
                    return self._path(prev, b, startset)
                dq.append(b)
        return None

    def _path(self, prev, a, startset):
        out = [a]
        seen = {a}
        while True:
            a = prev.get(a)
            if a is None or a in seen:
                break
            seen.add(a)
            out.append(a)
            if a in startset:
                break
        out.reverse()
        return out

    def describe_path(self, path: Sequence[int]) -> List[str]:
        return [self.nodes[i].describe() for i in path]

    def must_pass(
        self,
        starts: Iterable[int],
        targets: Iterable[int],
        through: Iterable[int],
        edge_ok=None,
        start_edge_ok=None,
    ) -> Optional[List[str]]:
        """None if every path start->target passes through a `through` node; else a witness path
        (human readable)."""
        w = self.witness(starts, targets, avoid=through, edge_ok=edge_ok, start_edge_ok=start_edge_ok)
        return None if w is None else self.describe_path(w)

    def always_preceded(self, node: int, by: Iterable[int], edge_ok=None) -> Optional[List[str]]:
        """None if every path entry->node passes through a `by` node; else a witness path."""
        by = set(by)
        if node in by:
            return None
        w = self.witness([self.entry], [node], avoid=by, edge_ok=edge_ok)
        return None if w is None else self.describe_path(w)

    def edge_guards(self, node: int) -> List[Tuple[ast.expr, bool]]:
        """Branch outcomes that dominate `node`: (test expr, polarity) such that every path
        entry->node takes that outcome of that test.  Includes early-return guards."""
        out = []
        base = self.reachable([self.entry])
        if node not in base:
            return out
        for t in self.nodes:
            if t.kind != "test":
                continue
            labs = {lab for _, lab in self.succ[t.id]}
            for lab in ("true", "false"):
                if lab not in labs:
                    continue
                # remove the *other* outcome edge: if node stays reachable only through `lab`...
                # i.e. node unreachable when the `lab` edge of t is cut.
                def ok(a, b, l, t=t.id, lab=lab):
                    return not (a == t and l == lab)
                r = self.reachable([self.entry], edge_ok=ok)
                if node not in r and node != t.id:
                    out.append((t.stmt.test, lab == "true"))
        out.sort(key=lambda x: (getattr(x[0], "lineno", 0), getattr(x[0], "col_offset", 0)))
        return out

    def exits_reached_from(self, starts, avoid=(), edge_ok=None) -> Set[str]:
        r = self.reachable(starts, avoid=avoid, edge_ok=edge_ok)
        out = set()
        if self.exit in r:
            out.add("exit")
        if self.raise_exit in r:
            out.add("raise_exit")
        return out

    def exc_succ(self, node: int) -> List[int]:
        return [b for b, lab in self.succ[node] if lab == "exc"]

    def normal_succ(self, node: int) -> List[int]:
        return [b for b, lab in self.succ[node] if lab != "exc"]

    def stats(self) -> Dict[str, int]:
        return {"nodes": len(self.nodes), "edges": sum(len(v) for v in self.succ.values())}


def no_exc(a, b, lab) -> bool:
    """edge_ok predicate: follow only non-exceptional edges."""
    return lab != "exc"


def _const_truth(test) -> Optional[bool]:
    if isinstance(test, ast.Constant):
        return bool(test.value)
    return None


def count_paths(cfg: CFG, limit=100000) -> int:
    """Number of acyclic entry->exit/raise_exit paths (capped) -- for evidence only."""
    memo: Dict[int, int] = {}
    onstack = set()

    import sys
    sys.setrecursionlimit(10000)

    def go(n):
        if n in (cfg.exit, cfg.raise_exit):
            return 1
        if n in memo:
            return memo[n]
        if n in onstack:
            return 0
        onstack.add(n)
        tot = 0
        for b, lab in cfg.succ[n]:
            if lab == "loop":
                continue
            tot += go(b)
            if tot > limit:
                tot = limit
                break
        onstack.discard(n)
        memo[n] = tot
        return tot

    return go(cfg.entry)
