"""Reference oracles (/verif/oracles/*.json): meaning of SQL / Python / documented API, never repo text."""

import json
import os

from .errors import AnalysisError
from .report import VERIF_DIR


def load(name: str):
    p = os.path.join(VERIF_DIR, "oracles", name)
    try:
        with open(p) as f:
            return json.load(f)
    except Exception as e:  # pragma: no cover
        raise AnalysisError(f"oracle {name} unreadable: {e}")


def python_mutators(typename: str):
    """(membership mutators, order-only mutators) of builtin list/set/dict, cross-checked against
    the analysing interpreter (introspecting builtins is not running /repo)."""
    o = load("python_mutators.json")[typename]
    t = {"list": list, "set": set, "dict": dict}[typename]
    names = set(dir(t))
    for n in o["membership"] + o["order_only"]:
        if n not in names:
            raise AnalysisError(f"oracle python_mutators: {typename}.{n} does not exist in this interpreter")
    frozen = {"list": tuple, "set": frozenset, "dict": type(None)}[typename]
    for n in names:
        if n.startswith("__i") and n.endswith("__") and n not in ("__init__", "__iter__", "__init_subclass__", "__invert__", "__index__", "__int__") and n not in dir(frozen):
            if n not in o["membership"]:
                raise AnalysisError(f"oracle python_mutators: in-place operator {typename}.{n} missing from oracle")
    return list(o["membership"]), list(o["order_only"])
