class AnalysisError(Exception):
    """The analysis could not decide (unknown idiom, unresolvable table, ...).

    Converted by the driver into `ANALYSIS-ERROR` + exit 2; never a violation,
    never a pass.
    """


class AnchorMissing(AnalysisError):
    """A function / class / table a rule is anchored on does not exist any more."""
