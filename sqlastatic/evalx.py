"""E2 -- symbolic evaluator for module/class level literal-ish tables.

Values: python dict / list / tuple / set / frozenset / str / int / bool / None, with atoms
`Sym(qualified name)` for anything that names a function/class/constant.  Everything the
evaluator does not understand becomes `Unknown(text)`; rules that need the value must fail
closed (AnalysisError) when they meet one.
"""

from __future__ import annotations

import ast
from typing import Any, Optional

from .astutil import dotted, unparse
from .errors import AnalysisError
from .index import ClassInfo, FuncInfo, Index, Module


class Sym:
    """A symbolic atom: qualified name of a function/class/attribute (e.g. `operators.eq`)."""

    __slots__ = ("name",)

    def __init__(self, name: str):
        self.name = name

    @property
    def short(self) -> str:
        return self.name.rsplit(".", 1)[-1]

    def __eq__(self, o):
        return isinstance(o, Sym) and o.name == self.name

    def __hash__(self):
        return hash(("Sym", self.name))

    def __repr__(self):
        return f"Sym({self.name})"

    def __lt__(self, o):
        return self.name < o.name


class Unknown:
    __slots__ = ("text",)

    def __init__(self, text: str):
        self.text = text

    def __repr__(self):
        return f"Unknown({self.text})"

    def __hash__(self):
        return hash(("Unknown", self.text))

    def __eq__(self, o):
        return isinstance(o, Unknown) and o.text == self.text


def has_unknown(v) -> bool:
    if isinstance(v, Unknown):
        return True
    if isinstance(v, dict):
        return any(has_unknown(k) or has_unknown(x) for k, x in v.items())
    if isinstance(v, (list, tuple, set, frozenset)):
        return any(has_unknown(x) for x in v)
    return False


def require_known(v, what: str):
    if has_unknown(v):
        raise AnalysisError(f"cannot evaluate {what}: {v!r}"[:400])
    return v


_DICT_CTORS = {"dict", "immutabledict", "OrderedDict", "EMPTY_DICT"}
_SET_CTORS = {"set", "frozenset", "OrderedSet", "IdentitySet"}
_LIST_CTORS = {"list", "tuple"}


class Evaluator:
    def __init__(self, index: Index, symbolic_classes=()):
        self.index = index
        self._stack = []
        # attributes of these classes are kept as Sym('Class.attr') instead of being evaluated
        self.symbolic_classes = set(symbolic_classes)

    # -- public ---------------------------------------------------------------
    def module_value(self, module: Module, name: str, which=-1):
        """Value of module-level assignment `name` (last one by default) incl. later
        `name.update(...)`-free semantics: only the binding expression is evaluated."""
        if name not in module.assigns:
            raise AnalysisError(f"{module.relpath}: no module-level assignment {name}")
        self.index.consulted.add(module.relpath)
        return self.eval(module.assigns[name][which], module)

    def class_value(self, cls: ClassInfo, name: str, inherited=True):
        owner = cls
        if name not in cls.assigns:
            if not inherited:
                raise AnalysisError(f"{cls.key}: no class-level assignment {name}")
            owner, nodes = self.index.class_attr_nodes(cls, name)
            if owner is None or not nodes:
                raise AnalysisError(f"{cls.key}: no class-level assignment {name} in MRO")
        self.index.consulted.add(owner.module.relpath)
        return self.eval(owner.assigns[name][-1], owner.module, owner)

    def sym_of(self, node: ast.AST, module: Module, cls: Optional[ClassInfo] = None) -> Any:
        d = dotted(node)
        if d is None or "()" in d:
            return Unknown(unparse(node))
        return self._name(d, node, module, cls)

    # -- evaluation -----------------------------------------------------------
    def eval(self, node: ast.AST, module: Module, cls: Optional[ClassInfo] = None, env=None):
        ev = lambda n: self.eval(n, module, cls, env)  # noqa: E731
        if isinstance(node, ast.Constant):
            return node.value
        if isinstance(node, ast.Dict):
            out = {}
            for k, v in zip(node.keys, node.values):
                if k is None:
                    sub = ev(v)
                    if isinstance(sub, dict):
                        out.update(sub)
                    else:
                        return Unknown(unparse(node)[:80])
                else:
                    kk = ev(k)
                    try:
                        out[kk] = ev(v)
                    except TypeError:
                        return Unknown(unparse(node)[:80])
            return out
        if isinstance(node, (ast.List, ast.Tuple, ast.Set)):
            items = []
            for e in node.elts:
                if isinstance(e, ast.Starred):
                    sub = ev(e.value)
                    if isinstance(sub, (list, tuple, set, frozenset)):
                        items.extend(sub)
                    else:
                        return Unknown(unparse(node)[:80])
                else:
                    items.append(ev(e))
            if isinstance(node, ast.List):
                return items
            if isinstance(node, ast.Tuple):
                return tuple(items)
            try:
                return set(items)
            except TypeError:
                return Unknown(unparse(node)[:80])
        if isinstance(node, (ast.Name, ast.Attribute)):
            if env and isinstance(node, ast.Name) and node.id in env:
                return env[node.id]
            d = dotted(node)
            if d is None or "()" in d:
                return Unknown(unparse(node)[:80])
            return self._name(d, node, module, cls)
        if isinstance(node, ast.UnaryOp):
            v = ev(node.operand)
            if isinstance(node.op, ast.USub) and isinstance(v, (int, float)):
                return -v
            if isinstance(node.op, ast.Not) and isinstance(v, bool):
                return not v
            return Unknown(unparse(node)[:80])
        if isinstance(node, ast.BinOp):
            l, r = ev(node.left), ev(node.right)
            if isinstance(l, Unknown) or isinstance(r, Unknown):
                return Unknown(unparse(node)[:80])
            try:
                if isinstance(node.op, ast.Add):
                    if isinstance(l, (list, tuple, str, int, float)) and type(l) is type(r):
                        return l + r
                    if isinstance(l, list) and isinstance(r, tuple):
                        return l + list(r)
                    if isinstance(l, tuple) and isinstance(r, list):
                        return list(l) + r
                if isinstance(node.op, ast.BitOr):
                    if isinstance(l, (set, frozenset)) and isinstance(r, (set, frozenset)):
                        return l | r
                    if isinstance(l, dict) and isinstance(r, dict):
                        return {**l, **r}
                if isinstance(node.op, ast.Sub):
                    if isinstance(l, (set, frozenset)) and isinstance(r, (set, frozenset)):
                        return l - r
                    if isinstance(l, (int, float)) and isinstance(r, (int, float)):
                        return l - r
                if isinstance(node.op, ast.BitAnd):
                    if isinstance(l, (set, frozenset)) and isinstance(r, (set, frozenset)):
                        return l & r
                if isinstance(node.op, ast.Mult) and isinstance(l, (int, float)) and isinstance(r, (int, float)):
                    return l * r
            except TypeError:
                pass
            return Unknown(unparse(node)[:80])
        if isinstance(node, ast.Call):
            return self._call(node, module, cls, env)
        if isinstance(node, ast.Subscript):
            base = ev(node.value)
            key = ev(node.slice)
            if isinstance(base, dict) and not isinstance(key, Unknown):
                try:
                    if key in base:
                        return base[key]
                except TypeError:
                    pass
            if isinstance(base, (list, tuple)) and isinstance(key, int):
                try:
                    return base[key]
                except IndexError:
                    pass
            return Unknown(unparse(node)[:80])
        if isinstance(node, ast.JoinedStr):
            return Unknown(unparse(node)[:80])
        if isinstance(node, (ast.DictComp, ast.ListComp, ast.SetComp, ast.GeneratorExp)):
            return self._comp(node, module, cls, env)
        if isinstance(node, ast.IfExp):
            return Unknown(unparse(node)[:80])
        if isinstance(node, ast.Starred):
            return ev(node.value)
        return Unknown(unparse(node)[:80])

    def _comp(self, node, module, cls, env):
        if len(node.generators) != 1 or node.generators[0].ifs and False:
            return Unknown(unparse(node)[:80])
        g = node.generators[0]
        it = self.eval(g.iter, module, cls, env)
        if isinstance(it, dict):
            it = list(it.keys())
        if not isinstance(it, (list, tuple, set, frozenset)) or has_unknown(it):
            return Unknown(unparse(node)[:80])
        seq = sorted(it, key=repr) if isinstance(it, (set, frozenset)) else it
        out_items = []
        for item in seq:
            e2 = dict(env or {})
            if isinstance(g.target, ast.Name):
                e2[g.target.id] = item
            elif isinstance(g.target, ast.Tuple) and isinstance(item, (tuple, list)) and len(item) == len(g.target.elts):
                for t, v in zip(g.target.elts, item):
                    if isinstance(t, ast.Name):
                        e2[t.id] = v
                    else:
                        return Unknown(unparse(node)[:80])
            else:
                return Unknown(unparse(node)[:80])
            if g.ifs:
                return Unknown(unparse(node)[:80])
            if isinstance(node, ast.DictComp):
                out_items.append((self.eval(node.key, module, cls, e2), self.eval(node.value, module, cls, e2)))
            else:
                out_items.append(self.eval(node.elt, module, cls, e2))
        try:
            if isinstance(node, ast.DictComp):
                return dict(out_items)
            if isinstance(node, ast.SetComp):
                return set(out_items)
            return list(out_items)
        except TypeError:
            return Unknown(unparse(node)[:80])

    def _call(self, node: ast.Call, module, cls, env):
        ev = lambda n: self.eval(n, module, cls, env)  # noqa: E731
        fname = dotted(node.func)
        short = fname.rsplit(".", 1)[-1] if fname else None
        if fname is None:
            return Unknown(unparse(node)[:80])
        # method calls on evaluated containers
        if isinstance(node.func, ast.Attribute) and short in (
            "union", "difference", "intersection", "copy", "merge_with", "keys", "values", "items",
        ):
            base = ev(node.func.value)
            if not isinstance(base, Unknown) and not isinstance(base, Sym):
                args = [ev(a) for a in node.args]
                if any(isinstance(a, Unknown) for a in args):
                    return Unknown(unparse(node)[:80])
                try:
                    if short == "union":
                        if isinstance(base, dict):
                            out = dict(base)
                            for a in args:
                                out.update(a)
                            return out
                        out = set(base)
                        for a in args:
                            out |= set(a)
                        return out if isinstance(base, set) else frozenset(out)
                    if short == "merge_with" and isinstance(base, dict):
                        out = dict(base)
                        for a in args:
                            if a is not None:
                                out.update(a)
                        return out
                    if short == "difference":
                        out = set(base)
                        for a in args:
                            out -= set(a)
                        return out
                    if short == "intersection":
                        out = set(base)
                        for a in args:
                            out &= set(a)
                        return out
                    if short == "copy":
                        return base.copy() if hasattr(base, "copy") else base
                    if short == "keys" and isinstance(base, dict):
                        return list(base.keys())
                    if short == "values" and isinstance(base, dict):
                        return list(base.values())
                    if short == "items" and isinstance(base, dict):
                        return list(base.items())
                except TypeError:
                    return Unknown(unparse(node)[:80])
        if short in _DICT_CTORS:
            out = {}
            if node.args:
                a0 = ev(node.args[0])
                if isinstance(a0, dict):
                    out.update(a0)
                elif isinstance(a0, (list, tuple)) and all(
                    isinstance(x, (tuple, list)) and len(x) == 2 for x in a0
                ):
                    try:
                        out.update(dict(a0))
                    except TypeError:
                        return Unknown(unparse(node)[:80])
                else:
                    return Unknown(unparse(node)[:80])
            for kw in node.keywords:
                if kw.arg is None:
                    sub = ev(kw.value)
                    if not isinstance(sub, dict):
                        return Unknown(unparse(node)[:80])
                    out.update(sub)
                else:
                    out[kw.arg] = ev(kw.value)
            return out
        if short in _SET_CTORS or short in _LIST_CTORS:
            if not node.args:
                return set() if short in _SET_CTORS else ([] if short == "list" else ())
            a0 = ev(node.args[0])
            if isinstance(a0, dict):
                a0 = list(a0.keys())
            if isinstance(a0, (list, tuple, set, frozenset)):
                try:
                    if short in ("set", "OrderedSet", "IdentitySet"):
                        return set(a0)
                    if short == "frozenset":
                        return frozenset(a0)
                    if short == "list":
                        return list(a0)
                    return tuple(a0)
                except TypeError:
                    return Unknown(unparse(node)[:80])
            return Unknown(unparse(node)[:80])
        if short == "sorted" and node.args:
            a0 = ev(node.args[0])
            if isinstance(a0, (list, tuple, set, frozenset)) and not has_unknown(a0):
                return sorted(a0, key=repr)
        if short in ("cast",) and len(node.args) == 2:
            return ev(node.args[1])
        return Unknown(unparse(node)[:80])

    def _name(self, d: str, node, module: Module, cls: Optional[ClassInfo]):
        if d in ("True", "False", "None"):
            return {"True": True, "False": False, "None": None}[d]
        head = d.split(".")[0]
        # class-scope names first
        if cls is not None and "." not in d and d in cls.assigns:
            key = ("c", cls.key, d)
            if key in self._stack:
                return Unknown(d)
            self._stack.append(key)
            try:
                return self.eval(cls.assigns[d][-1], cls.module, cls)
            finally:
                self._stack.pop()
        r = self.index.resolve(module, d)
        if r is None:
            return Sym(d)
        if isinstance(r, (ClassInfo, FuncInfo)):
            return Sym(_qual(r))
        if isinstance(r, Module):
            return Sym(r.name)
        if isinstance(r, tuple) and r[0] == "value":
            _, m2, nm = r
            key = ("m", m2.name, nm)
            if key in self._stack:
                return Sym(f"{m2.name}.{nm}")
            self._stack.append(key)
            try:
                v = self.eval(m2.assigns[nm][-1], m2)
            finally:
                self._stack.pop()
            if isinstance(v, Unknown) or (isinstance(v, Sym) and not v.name.startswith("sqlalchemy.")):
                return Sym(f"{m2.name}.{nm}")
            return v
        if isinstance(r, tuple) and r[0] == "classvalue":
            _, owner, nm = r
            if owner.name in self.symbolic_classes:
                return Sym(f"{owner.name}.{nm}")
            key = ("c", owner.key, nm)
            if key in self._stack:
                return Sym(f"{owner.module.name}.{owner.qualname}.{nm}")
            self._stack.append(key)
            try:
                v = self.eval(owner.assigns[nm][-1], owner.module, owner)
            finally:
                self._stack.pop()
            if isinstance(v, Unknown):
                return Sym(f"{owner.module.name}.{owner.qualname}.{nm}")
            return v
        return Sym(d)


def _qual(r) -> str:
    return f"{r.module.name}.{r.qualname}"


def sym_short(v) -> Any:
    """Sym -> last component; other values unchanged (handy for comparing operator names)."""
    return v.short if isinstance(v, Sym) else v
