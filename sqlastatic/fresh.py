"""T-FRESH typestate: "mutate only a fresh copy".

Forward dataflow over the statement CFG.  Abstract value of a variable / attribute path:
  F  fresh: a new object nobody else references (result of _clone/_generate/__new__/constructor/
     generative method/list()/dict()/.copy()/display ...)
  S  shared: a parameter, an attribute read off another object, a loop element, a global
  U  unknown
Sinks (reported by `mutation_sinks`): attribute stores / deletes on a variable, and in-place mutation
(mutating method call, subscript store/delete) of `var.attr`.
"""

from __future__ import annotations

import ast
from typing import Callable, Dict, Iterable, List, Optional, Set, Tuple

from .astutil import MUTATING_METHODS, call_name, dotted, own_exprs, unparse, walk_local
from .cfg import CFG

F, S, U = "F", "S", "U"
_RANK = {F: 0, U: 1, S: 2}

FRESH_METHOD_NAMES = {
    "_clone", "_generate", "__new__", "copy", "_copy", "__copy__", "__deepcopy__", "deepcopy",
    "_create_raw_select", "_construct_raw", "_construct_for_op", "_construct_for_list",
}
FRESH_BUILTINS = {"list", "dict", "set", "tuple", "frozenset", "sorted", "OrderedDict", "defaultdict", "deque"}


def join(a: str, b: str) -> str:
    return a if _RANK[a] >= _RANK[b] else b


def join_env(a: Dict[str, str], b: Dict[str, str]) -> Dict[str, str]:
    out = {}
    for k in set(a) | set(b):
        if k in a and k in b:
            out[k] = join(a[k], b[k])
        else:
            # bound on one path only: unknown on the other
            out[k] = join(a.get(k, U), b.get(k, U))
    return out


class FreshAnalysis:
    def __init__(
        self,
        cfg: CFG,
        entry_env: Dict[str, str],
        fresh_call: Optional[Callable[[ast.Call, Callable], Optional[str]]] = None,
        default_name_state: str = S,
        assume_true: Iterable[str] = (),
    ):
        """fresh_call(call, state_of_expr) -> F/S/U or None to fall back to the built-in rules."""
        self.cfg = cfg
        self.fresh_call = fresh_call
        self.default_name_state = default_name_state
        # normalised test texts assumed to hold whenever they are (re-)tested: their false edges are cut
        self.assume_true = set(assume_true)
        self.pre: Dict[int, Dict[str, str]] = {}
        self.post: Dict[int, Dict[str, str]] = {}
        self._run(entry_env)

    # ------------------------------------------------------------------ expression states
    def state(self, expr: ast.AST, env: Dict[str, str]) -> str:
        if isinstance(expr, ast.Name):
            return env.get(expr.id, self.default_name_state)
        if isinstance(expr, ast.Attribute):
            d = dotted(expr)
            if d and d in env:
                return env[d]
            return S  # a sub-object of something: shared even when its owner is a fresh shallow copy
        if isinstance(expr, (ast.List, ast.Dict, ast.Set, ast.ListComp, ast.DictComp, ast.SetComp, ast.Tuple, ast.Constant, ast.JoinedStr)):
            return F
        if isinstance(expr, ast.BinOp):
            return F  # a + b builds a new object for the immutable/list types used here
        if isinstance(expr, ast.IfExp):
            return join(self.state(expr.body, env), self.state(expr.orelse, env))
        if isinstance(expr, ast.BoolOp):
            st = F
            for v in expr.values:
                st = join(st, self.state(v, env))
            return st
        if isinstance(expr, ast.NamedExpr):
            return self.state(expr.value, env)
        if isinstance(expr, ast.Await):
            return self.state(expr.value, env)
        if isinstance(expr, ast.Call):
            if self.fresh_call is not None:
                r = self.fresh_call(expr, lambda e: self.state(e, env))
                if r is not None:
                    return r
            nm = call_name(expr) or ""
            short = nm.rsplit(".", 1)[-1]
            if short in FRESH_METHOD_NAMES:
                return F
            if nm in FRESH_BUILTINS or (short in FRESH_BUILTINS and nm.startswith(("util.", "collections."))):
                return F
            if short in ("cast",) and len(expr.args) == 2:
                return self.state(expr.args[1], env)
            return U
        if isinstance(expr, ast.Subscript):
            return S
        return U

    # ------------------------------------------------------------------ transfer
    def _bind(self, env, target, st):
        if isinstance(target, ast.Name):
            # rebinding a variable invalidates what we knew about its attribute paths
            for k in [k for k in env if k.startswith(target.id + ".")]:
                del env[k]
            env[target.id] = st
        elif isinstance(target, ast.Attribute):
            d = dotted(target)
            if d and "()" not in d:
                for k in [k for k in env if k.startswith(d + ".")]:
                    del env[k]
                env[d] = st
        elif isinstance(target, (ast.Tuple, ast.List)):
            for e in target.elts:
                self._bind(env, e.value if isinstance(e, ast.Starred) else e, U if st != S else S)

    def _transfer(self, node, env: Dict[str, str]) -> Dict[str, str]:
        env = dict(env)
        st = node.stmt
        if node.kind == "stmt":
            if isinstance(st, ast.Assign):
                v = self.state(st.value, env)
                if len(st.targets) == 1 and isinstance(st.targets[0], (ast.Tuple, ast.List)) and isinstance(st.value, (ast.Tuple, ast.List)) \
                        and len(st.targets[0].elts) == len(st.value.elts):
                    vals = [self.state(e, env) for e in st.value.elts]
                    for t, s in zip(st.targets[0].elts, vals):
                        self._bind(env, t, s)
                else:
                    for t in st.targets:
                        self._bind(env, t, v)
            elif isinstance(st, ast.AnnAssign) and st.value is not None:
                self._bind(env, st.target, self.state(st.value, env))
            elif isinstance(st, ast.AugAssign):
                # x += v : for immutable values this rebinds to a new object; for lists it mutates in place.
                # The caller judges in-place-ness; the state of the target is unchanged here.
                pass
            elif isinstance(st, ast.Delete):
                for t in st.targets:
                    if isinstance(t, ast.Name):
                        env.pop(t.id, None)
        elif node.kind == "for":
            self._bind(env, st.target, S)
        elif node.kind == "with_enter":
            for it in st.items:
                if it.optional_vars is not None:
                    self._bind(env, it.optional_vars, U)
        elif node.kind == "handler":
            if st.name:
                env[st.name] = U
        # walrus inside any expression
        if st is not None and isinstance(st, ast.stmt):
            for part in own_exprs(st):
                for n in ast.walk(part):
                    if isinstance(n, ast.NamedExpr) and isinstance(n.target, ast.Name):
                        env[n.target.id] = self.state(n.value, env)
        return env

    def _run(self, entry_env):
        g = self.cfg
        self.pre[g.entry] = dict(entry_env)
        work = [g.entry]
        inq = {g.entry}
        it = 0
        while work:
            it += 1
            if it > 200000:
                break
            n = work.pop()
            inq.discard(n)
            pre = self.pre.get(n, {})
            post = self._transfer(g.nodes[n], pre)
            self.post[n] = post
            nd = g.nodes[n]
            cut_false = (
                self.assume_true and nd.kind == "test" and unparse(nd.stmt.test) in self.assume_true
            )
            for b, lab in g.succ[n]:
                if cut_false and lab == "false":
                    continue
                src = pre if lab == "exc" else post
                if b not in self.pre:
                    self.pre[b] = dict(src)
                    changed = True
                else:
                    merged = join_env(self.pre[b], src)
                    changed = merged != self.pre[b]
                    if changed:
                        self.pre[b] = merged
                if changed and b not in inq:
                    work.append(b)
                    inq.add(b)

    # ------------------------------------------------------------------ sinks
    def mutation_sinks(self) -> List[Tuple[int, str, str, str, ast.AST]]:
        """[(cfg node id, kind, root variable, dotted target, ast node)] where kind is
        'attr-store' (root.attr = / += / del), 'inplace' (root.attr.method() / root.attr[k] = / del root.attr[k])."""
        out = []
        for node in self.cfg.nodes:
            st = node.stmt
            if st is None or node.kind not in ("stmt", "test", "for", "with_enter"):
                continue
            if not isinstance(st, ast.stmt):
                continue
            if node.kind == "stmt":
                targets = []
                if isinstance(st, ast.Assign):
                    targets = list(st.targets)
                elif isinstance(st, (ast.AugAssign, ast.AnnAssign)):
                    if not (isinstance(st, ast.AnnAssign) and st.value is None):
                        targets = [st.target]
                elif isinstance(st, ast.Delete):
                    targets = list(st.targets)
                flat = []
                for t in targets:
                    flat.extend(_flatten(t))
                for t in flat:
                    if isinstance(t, ast.Attribute):
                        d = dotted(t)
                        if d and "()" not in d:
                            out.append((node.id, "attr-store", d.split(".")[0], d, st))
                    elif isinstance(t, ast.Subscript):
                        d = dotted(t.value)
                        if d and "()" not in d and "." in d:
                            out.append((node.id, "inplace", d.split(".")[0], d, st))
            for part in own_exprs(st):
                for n in ast.walk(part):
                    if isinstance(n, ast.Call) and isinstance(n.func, ast.Attribute) and n.func.attr in MUTATING_METHODS:
                        d = dotted(n.func.value)
                        if d and "()" not in d and "." in d:
                            out.append((node.id, "inplace", d.split(".")[0], d, n))
        return out

    def state_at(self, node_id: int, name: str) -> str:
        env = self.pre.get(node_id, {})
        return env.get(name, self.default_name_state if "." not in name else S)


def _flatten(t):
    if isinstance(t, (ast.Tuple, ast.List)):
        out = []
        for e in t.elts:
            out.extend(_flatten(e))
        return out
    if isinstance(t, ast.Starred):
        return _flatten(t.value)
    return [t]
